// Enumerated "program zoo" over the orangeinp construction API: object trees + placement.
//
// Every program yields
//   * the top-level UnitProto (real construction objects: Shape/Solid/PolySolid/Transformed/
//     NegatedObject/AnyObjects/AllObjects/make_subtraction/make_rdv, UnitProto with materials,
//     daughters, background, implicit or explicit boundary),
//   * an analytic model of every unit (oracle/solids.hh nodes for the boundary, each material
//     region and each daughter placement) from which the expected volume label of any point
//     follows by the *definition* of a unit, and
//   * a finite probe box.
// Independent of any harness main(): C09 (point membership) and C19 (JSON round trip of the
// OrangeInput) both use it.   Usage:
//     for (auto const& key : vf::sprog::enumerate(thorough)) {
//         vf::sprog::Program prog = vf::sprog::build(key);           // may throw (construction)
//         celeritas::OrangeInput inp = vf::sprog::build_input(prog); // UnitProto -> InputBuilder
//         vf::sprog::Expect e = prog.locate({x, y, z});              // analytic expectation
//     }
#pragma once

#include <cmath>
#include <map>
#include <memory>
#include <stdexcept>
#include <string>
#include <utility>
#include <vector>

#include "corecel/io/Label.hh"
#include "corecel/math/Turn.hh"
#include "orange/OrangeInput.hh"
#include "orange/OrangeTypes.hh"
#include "orange/orangeinp/CsgObject.hh"
#include "orange/orangeinp/InputBuilder.hh"
#include "orange/orangeinp/IntersectRegion.hh"
#include "orange/orangeinp/ObjectInterface.hh"
#include "orange/orangeinp/PolySolid.hh"
#include "orange/orangeinp/ProtoInterface.hh"
#include "orange/orangeinp/Shape.hh"
#include "orange/orangeinp/Solid.hh"
#include "orange/orangeinp/Transformed.hh"
#include "orange/orangeinp/UnitProto.hh"
#include "orange/transform/Transformation.hh"
#include "orange/transform/Translation.hh"
#include "orange/transform/VariantTransform.hh"

#include "oracle/solids.hh"

namespace vf
{
namespace sprog
{
namespace ci = celeritas::orangeinp;
namespace so = vf::solids;
using celeritas::GeoMaterialId;
using celeritas::Label;
using celeritas::Real2;
using celeritas::Real3;
using celeritas::real_type;
using celeritas::Sense;
using celeritas::Turn;
using celeritas::ZOrder;
using so::ld;

//---------------------------------------------------------------------------//
//! A construction object together with its analytic twin
struct Obj
{
    std::string name;  //!< stable id piece
    std::string kind;  //!< coverage class
    ci::SPConstObject obj;
    so::SP ora;
    //! Non-empty: the library refused to construct this (valid) leaf; `obj` is null and
    //! build() rethrows the message as std::runtime_error for every program that uses the leaf
    std::string error;
};

//---------------------------------------------------------------------------//
// LEAVES
//---------------------------------------------------------------------------//
namespace detail
{
template<class R>
inline ci::SPConstObject shape(std::string name, R&& region)
{
    return std::make_shared<ci::Shape<R>>(std::move(name), std::move(region));
}
inline so::SP sector(double start, double interior)
{
    return std::make_shared<so::Sector>(ld(start), ld(interior));
}
inline so::GenPrism::Poly poly(std::vector<Real2> const& v)
{
    so::GenPrism::Poly p;
    for (auto const& xy : v)
        p.push_back({ld(xy[0]), ld(xy[1])});
    return p;
}
inline std::vector<ld> ldvec(std::vector<double> const& v)
{
    return std::vector<ld>(v.begin(), v.end());
}
}  // namespace detail

//! Number of leaves of the base zoo (what enumerate(thorough) without `extended` iterates over)
constexpr int num_base_leaves = 50;
//! Half height of the "gpt*" leaves (GenPrism ends with coincident vertices)
constexpr double gpt_hz = 1.0;
//! For the leaves whose end face has a duplicate among its leading three vertices: which end
//! (-1 lower, +1 upper, 0: not such a leaf)
inline int leaddup_end(std::string const& leaf_name)
{
    return leaf_name == "gptlo" ? -1 : leaf_name == "gpthi" ? 1 : 0;
}

//! The leaf alphabet: every primitive x >= 2 parameter sets, hollow / sliced solids,
//! 2-segment polycones and polyprisms.  Sizes ~1-2 so that translated copies overlap partially.
inline std::vector<Obj> make_leaves()
{
    using namespace detail;
    std::vector<Obj> L;
    auto add = [&L](std::string name, std::string kind, ci::SPConstObject o, so::SP n) {
        L.push_back({std::move(name), std::move(kind), std::move(o), std::move(n)});
    };
    using VR2 = ci::GenPrism::VecReal2;

    // -- box --
    add("box1", "box", shape("box1", ci::Box{Real3{1.0, 1.5, 2.0}}),
        std::make_shared<so::Box>(1.0L, 1.5L, 2.0L));
    add("box2", "box", shape("box2", ci::Box{Real3{0.6, 0.6, 0.6}}),
        std::make_shared<so::Box>(0.6L, 0.6L, 0.6L));
    // -- sphere --
    add("sph1", "sphere", shape("sph1", ci::Sphere{1.5}), std::make_shared<so::Sphere>(1.5L));
    add("sph2", "sphere", shape("sph2", ci::Sphere{0.7}), std::make_shared<so::Sphere>(0.7L));
    // -- cylinder --
    add("cyl1", "cylinder", shape("cyl1", ci::Cylinder{1.2, 1.6}),
        std::make_shared<so::Cylinder>(1.2L, 1.6L));
    add("cyl2", "cylinder", shape("cyl2", ci::Cylinder{0.5, 2.2}),
        std::make_shared<so::Cylinder>(0.5L, 2.2L));
    // -- cone: truncated opening downward; pointed (apex on the lower face) --
    add("cone1", "cone", shape("cone1", ci::Cone{Real2{1.4, 0.6}, 1.5}),
        std::make_shared<so::Cone>(1.4L, 0.6L, 1.5L));
    add("cone2", "cone", shape("cone2", ci::Cone{Real2{0.0, 1.3}, 1.2}),
        std::make_shared<so::Cone>(0.0L, 1.3L, 1.2L));
    // nearly equal radii (relative difference below the tolerance): built as a cylinder
    add("cone3", "cone-nearly-cylinder", shape("cone3", ci::Cone{Real2{0.9, 0.9 * (1 + 4e-9)}, 1.1}),
        std::make_shared<so::Cone>(0.9L, ld(0.9 * (1 + 4e-9)), 1.1L));
    // -- ellipsoid: generic; two equal radii; all equal (simplifies to a sphere) --
    add("ell1", "ellipsoid", shape("ell1", ci::Ellipsoid{Real3{1.8, 1.1, 0.9}}),
        std::make_shared<so::Ellipsoid>(1.8L, 1.1L, 0.9L));
    add("ell2", "ellipsoid", shape("ell2", ci::Ellipsoid{Real3{1.2, 1.2, 2.0}}),
        std::make_shared<so::Ellipsoid>(1.2L, 1.2L, 2.0L));
    add("ell3", "ellipsoid", shape("ell3", ci::Ellipsoid{Real3{1.3, 1.3, 1.3}}),
        std::make_shared<so::Ellipsoid>(1.3L, 1.3L, 1.3L));
    // -- prism: 3, 4, 5, 6 sides, several orientations --
    add("pri3", "prism", shape("pri3", ci::Prism{3, 0.8, 1.3, 0.0}),
        std::make_shared<so::Prism>(3, 0.8L, 1.3L, 0.0L));
    add("pri4", "prism", shape("pri4", ci::Prism{4, 0.9, 1.0, 0.0}),
        std::make_shared<so::Prism>(4, 0.9L, 1.0L, 0.0L));
    add("pri5", "prism", shape("pri5", ci::Prism{5, 1.1, 0.9, 0.3}),
        std::make_shared<so::Prism>(5, 1.1L, 0.9L, 0.3L));
    add("pri6", "prism", shape("pri6", ci::Prism{6, 1.0, 1.4, 0.5}),
        std::make_shared<so::Prism>(6, 1.0L, 1.4L, 0.5L));
    // -- generalized prism / trapezoid --
    {
        // trd helper: rectangles (hx, hy) on the -z and +z face
        VR2 lo{{1.0, -0.8}, {1.0, 0.8}, {-1.0, 0.8}, {-1.0, -0.8}};
        VR2 hi{{0.5, -1.2}, {0.5, 1.2}, {-0.5, 1.2}, {-0.5, -1.2}};
        add("trd", "genprism",
            shape("trd", ci::GenPrism::from_trd(1.4, Real2{1.0, 0.8}, Real2{0.5, 1.2})),
            std::make_shared<so::GenPrism>(1.4L, poly(lo), poly(hi)));
    }
    {
        // G4Trap helper with equal x half-lengths on each face (pDx1 = pDx2): faces are the
        // parallelograms with centre at -+hz*tan(theta)*(cos phi, sin phi), y half-height hy,
        // x half-length hx, and the +y edge shifted by +hy*tan(alpha) (the -y edge by the opposite)
        double const hz = 1.3, th = 0.04, ph = 0.15, al = 0.03;
        double const hyl = 0.8, hxl = 0.9, hyh = 0.6, hxh = 0.675;
        ld tt = std::tan(so::kTwoPi * ld(th));
        ld ox = ld(hz) * tt * std::cos(so::kTwoPi * ld(ph));
        ld oy = ld(hz) * tt * std::sin(so::kTwoPi * ld(ph));
        ld ta = std::tan(so::kTwoPi * ld(al));
        auto face = [&](ld sx, ld sy, ld hy, ld hx) {
            ld sh = hy * ta;
            return so::GenPrism::Poly{{sx - sh + hx, sy - hy},
                                      {sx + sh + hx, sy + hy},
                                      {sx + sh - hx, sy + hy},
                                      {sx - sh - hx, sy - hy}};
        };
        ci::GenPrism::TrapFace flo{hyl, hxl, hxl, Turn{al}};
        ci::GenPrism::TrapFace fhi{hyh, hxh, hxh, Turn{al}};
        add("trap", "genprism",
            shape("trap", ci::GenPrism::from_trap(hz, Turn{th}, Turn{ph}, flo, fhi)),
            std::make_shared<so::GenPrism>(ld(hz), face(-ox, -oy, hyl, hxl), face(ox, oy, hyh, hxh)));
    }
    {
        // five-sided, upper polygon = scaled + shifted copy (planar faces), given CLOCKWISE
        VR2 lo, hi;
        for (int k = 0; k < 5; ++k)
        {
            double a = -2 * M_PI * k / 5 + 0.3;
            lo.push_back({1.2 * std::cos(a), 1.2 * std::sin(a)});
            hi.push_back({0.7 * std::cos(a) + 0.25, 0.7 * std::sin(a) - 0.15});
        }
        add("gp5", "genprism", shape("gp5", ci::GenPrism{1.1, lo, hi}),
            std::make_shared<so::GenPrism>(1.1L, poly(lo), poly(hi)));
    }
    {
        // twisted: upper square rotated by 25 degrees w.r.t. the lower one
        VR2 lo{{0.9, -0.9}, {0.9, 0.9}, {-0.9, 0.9}, {-0.9, -0.9}};
        VR2 hi;
        double c = std::cos(25 * M_PI / 180), s = std::sin(25 * M_PI / 180);
        for (auto const& v : lo)
            hi.push_back({0.8 * (c * v[0] - s * v[1]), 0.8 * (s * v[0] + c * v[1])});
        add("gptw", "genprism-twisted", shape("gptw", ci::GenPrism{1.2, lo, hi}),
            std::make_shared<so::GenPrism>(1.2L, poly(lo), poly(hi)));
    }
    {
        // degenerate upper face: pyramid with its apex at (0.2, 0.1, +hz)
        VR2 lo{{1.0, -0.7}, {1.0, 0.7}, {-1.0, 0.7}, {-1.0, -0.7}};
        VR2 hi{{0.2, 0.1}, {0.2, 0.1}, {0.2, 0.1}, {0.2, 0.1}};
        add("gppy", "genprism-degenerate", shape("gppy", ci::GenPrism{1.0, lo, hi}),
            std::make_shared<so::GenPrism>(1.0L, poly(lo), poly(hi)));
    }
    {
        // degenerate upper face: roof (upper polygon collapses to a segment)
        VR2 lo{{1.0, -0.6}, {1.0, 0.6}, {-1.0, 0.6}, {-1.0, -0.6}};
        VR2 hi{{0.5, 0.0}, {0.5, 0.0}, {-0.5, 0.0}, {-0.5, 0.0}};
        add("gprf", "genprism-degenerate", shape("gprf", ci::GenPrism{0.9, lo, hi}),
            std::make_shared<so::GenPrism>(0.9L, poly(lo), poly(hi)));
    }
    {
        // degenerate lower face: inverted pyramid
        VR2 lo{{-0.1, 0.2}, {-0.1, 0.2}, {-0.1, 0.2}, {-0.1, 0.2}};
        VR2 hi{{0.8, -0.9}, {0.8, 0.9}, {-0.8, 0.9}, {-0.8, -0.9}};
        add("gppd", "genprism-degenerate", shape("gppd", ci::GenPrism{1.1, lo, hi}),
            std::make_shared<so::GenPrism>(1.1L, poly(lo), poly(hi)));
    }
    // -- parallelepiped: box-like; alpha only; all three angles --
    add("para0", "parallelepiped",
        shape("para0", ci::Parallelepiped{Real3{1.1, 0.7, 0.9}, Turn{0}, Turn{0}, Turn{0}}),
        std::make_shared<so::Parallelepiped>(1.1L, 0.7L, 0.9L, 0.0L, 0.0L, 0.0L));
    add("para1", "parallelepiped-alpha",
        shape("para1", ci::Parallelepiped{Real3{1.0, 0.8, 1.2}, Turn{0.05}, Turn{0}, Turn{0}}),
        std::make_shared<so::Parallelepiped>(1.0L, 0.8L, 1.2L, 0.05L, 0.0L, 0.0L));
    add("para2", "parallelepiped-theta",
        shape("para2", ci::Parallelepiped{Real3{0.9, 1.1, 1.0}, Turn{0}, Turn{0.06}, Turn{0.2}}),
        std::make_shared<so::Parallelepiped>(0.9L, 1.1L, 1.0L, 0.0L, 0.06L, 0.2L));
    add("para3", "parallelepiped-negative",
        shape("para3", ci::Parallelepiped{Real3{0.8, 0.9, 1.1}, Turn{-0.04}, Turn{0.05}, Turn{0.4}}),
        std::make_shared<so::Parallelepiped>(0.8L, 0.9L, 1.1L, -0.04L, 0.05L, 0.4L));
    // -- infinite wedge (unbounded: always placed inside a bounding context) --
    add("wed1", "infwedge", shape("wed1", ci::InfWedge{Turn{0.1}, Turn{0.2}}),
        sector(0.1, 0.2));
    add("wed2", "infwedge", shape("wed2", ci::InfWedge{Turn{0.6}, Turn{0.5}}),
        sector(0.6, 0.5));
    add("wed3", "infwedge", shape("wed3", ci::InfWedge{Turn{0.0}, Turn{0.25}}),
        sector(0.0, 0.25));
    // -- hollow solids --
    add("cylsh", "solid-hollow",
        std::make_shared<ci::CylinderSolid>("cylsh", ci::Cylinder{1.3, 1.5}, ci::Cylinder{0.7, 1.5}),
        so::hollow_sliced(std::make_shared<so::Cylinder>(1.3L, 1.5L),
                          std::make_shared<so::Cylinder>(0.7L, 1.5L), nullptr));
    add("cylcav", "solid-hollow",
        std::make_shared<ci::CylinderSolid>("cylcav", ci::Cylinder{1.1, 1.4}, ci::Cylinder{0.6, 0.8}),
        so::hollow_sliced(std::make_shared<so::Cylinder>(1.1L, 1.4L),
                          std::make_shared<so::Cylinder>(0.6L, 0.8L), nullptr));
    add("sphsh", "solid-hollow",
        std::make_shared<ci::SphereSolid>("sphsh", ci::Sphere{1.6}, ci::Sphere{0.9}),
        so::hollow_sliced(std::make_shared<so::Sphere>(1.6L), std::make_shared<so::Sphere>(0.9L),
                          nullptr));
    add("conesh", "solid-hollow",
        std::make_shared<ci::ConeSolid>("conesh", ci::Cone{Real2{1.5, 0.9}, 1.4},
                                        ci::Cone{Real2{1.0, 0.4}, 1.4}),
        so::hollow_sliced(std::make_shared<so::Cone>(1.5L, 0.9L, 1.4L),
                          std::make_shared<so::Cone>(1.0L, 0.4L, 1.4L), nullptr));
    add("prish", "solid-hollow",
        std::make_shared<ci::PrismSolid>("prish", ci::Prism{6, 1.2, 1.0, 0.0},
                                         ci::Prism{6, 0.7, 1.0, 0.0}),
        so::hollow_sliced(std::make_shared<so::Prism>(6, 1.2L, 1.0L, 0.0L),
                          std::make_shared<so::Prism>(6, 0.7L, 1.0L, 0.0L), nullptr));
    // -- sliced solids: interior angle < 1/2 (intersect a wedge), > 1/2 (subtract one), = 1/2,
    //    negative start --
    add("cylsl", "solid-sliced",
        std::make_shared<ci::CylinderSolid>("cylsl", ci::Cylinder{1.2, 1.0},
                                            ci::SolidEnclosedAngle{Turn{0.05}, Turn{0.3}}),
        so::hollow_sliced(std::make_shared<so::Cylinder>(1.2L, 1.0L), nullptr, sector(0.05, 0.3)));
    add("cylsl2", "solid-sliced-gt-half",
        std::make_shared<ci::CylinderSolid>("cylsl2", ci::Cylinder{1.0, 1.3},
                                            ci::SolidEnclosedAngle{Turn{0.4}, Turn{0.75}}),
        so::hollow_sliced(std::make_shared<so::Cylinder>(1.0L, 1.3L), nullptr, sector(0.4, 0.75)));
    add("sphsl", "solid-sliced",
        std::make_shared<ci::SphereSolid>("sphsl", ci::Sphere{1.4},
                                          ci::SolidEnclosedAngle{Turn{-0.1}, Turn{0.5}}),
        so::hollow_sliced(std::make_shared<so::Sphere>(1.4L), nullptr, sector(-0.1, 0.5)));
    add("conehs", "solid-hollow-sliced",
        std::make_shared<ci::ConeSolid>("conehs", ci::Cone{Real2{0.9, 1.5}, 1.2},
                                        std::optional<ci::Cone>{ci::Cone{Real2{0.4, 0.8}, 1.2}},
                                        ci::SolidEnclosedAngle{Turn{0.2}, Turn{0.6}}),
        so::hollow_sliced(std::make_shared<so::Cone>(0.9L, 1.5L, 1.2L),
                          std::make_shared<so::Cone>(0.4L, 0.8L, 1.2L), sector(0.2, 0.6)));
    add("prisl", "solid-sliced",
        std::make_shared<ci::PrismSolid>("prisl", ci::Prism{5, 1.0, 1.1, 0.0},
                                         ci::SolidEnclosedAngle{Turn{0.0}, Turn{0.25}}),
        so::hollow_sliced(std::make_shared<so::Prism>(5, 1.0L, 1.1L, 0.0L), nullptr,
                          sector(0.0, 0.25)));
    // -- polycone --
    {
        std::vector<double> out{1.5, 0.8, 1.2}, z{-1.5, 0.0, 1.2};
        add("pc1", "polycone",
            std::make_shared<ci::PolyCone>("pc1", ci::PolySegments{std::vector<double>(out), std::vector<double>(z)},
                                           ci::SolidEnclosedAngle{}),
            std::make_shared<so::PolySolid>(std::vector<ld>{}, ldvec(out), ldvec(z), nullptr));
        add("pc1s", "polycone-sliced",
            std::make_shared<ci::PolyCone>("pc1s", ci::PolySegments{std::vector<double>(out), std::vector<double>(z)},
                                           ci::SolidEnclosedAngle{Turn{0.1}, Turn{0.35}}),
            std::make_shared<so::PolySolid>(std::vector<ld>{}, ldvec(out), ldvec(z),
                                            sector(0.1, 0.35)));
    }
    {
        std::vector<double> in{0.4, 0.3, 0.5}, out{1.2, 1.2, 0.7}, z{-1.0, 0.2, 1.4};
        add("pc2h", "polycone-hollow",
            std::make_shared<ci::PolyCone>("pc2h",
                                           ci::PolySegments{std::vector<double>(in), std::vector<double>(out),
                                                            std::vector<double>(z)},
                                           ci::SolidEnclosedAngle{}),
            std::make_shared<so::PolySolid>(ldvec(in), ldvec(out), ldvec(z), nullptr));
    }
    {
        // stacked cylinders with a zero-height (skipped) middle segment
        std::vector<double> out{1.4, 1.4, 0.8, 0.8}, z{-1.2, 0.0, 0.0, 1.0};
        add("pc3", "polycone-stacked",
            std::make_shared<ci::PolyCone>("pc3", ci::PolySegments{std::vector<double>(out), std::vector<double>(z)},
                                           ci::SolidEnclosedAngle{}),
            std::make_shared<so::PolySolid>(std::vector<ld>{}, ldvec(out), ldvec(z), nullptr));
    }
    {
        // single segment through the or_solid factory: hollow sliced cone, translated in z
        std::vector<double> in{0.2, 0.5}, out{0.6, 1.1}, z{0.2, 1.8};
        add("pcone1", "polycone-single",
            ci::PolyCone::or_solid("pcone1",
                                   ci::PolySegments{std::vector<double>(in), std::vector<double>(out),
                                                    std::vector<double>(z)},
                                   ci::SolidEnclosedAngle{Turn{0.55}, Turn{0.7}}),
            std::make_shared<so::PolySolid>(ldvec(in), ldvec(out), ldvec(z), sector(0.55, 0.7)));
    }
    {
        // first segment is a full cone (radius 0 at the bottom)
        std::vector<double> out{0.0, 1.0, 0.6}, z{-1.0, 0.1, 1.1};
        add("pc4", "polycone", 
            std::make_shared<ci::PolyCone>("pc4", ci::PolySegments{std::vector<double>(out), std::vector<double>(z)},
                                           ci::SolidEnclosedAngle{}),
            std::make_shared<so::PolySolid>(std::vector<ld>{}, ldvec(out), ldvec(z), nullptr));
    }
    {
        // single segment, nothing excluded, centred: the factory returns a plain cone Shape
        std::vector<double> out{0.7, 1.0}, z{-0.8, 0.8};
        add("pcone2", "polycone-single",
            ci::PolyCone::or_solid("pcone2",
                                   ci::PolySegments{std::vector<double>(out), std::vector<double>(z)},
                                   ci::SolidEnclosedAngle{}),
            std::make_shared<so::PolySolid>(std::vector<ld>{}, ldvec(out), ldvec(z), nullptr));
    }
    // -- polyprism --
    {
        // single segment through the factory: hollow sliced prism Solid, translated in z
        std::vector<double> in{0.4, 0.4}, out{0.9, 0.9}, z{-0.5, 1.1};
        add("pprism1", "polyprism-single",
            ci::PolyPrism::or_solid("pprism1",
                                    ci::PolySegments{std::vector<double>(in), std::vector<double>(out),
                                                     std::vector<double>(z)},
                                    ci::SolidEnclosedAngle{Turn{0.15}, Turn{0.45}}, 5, 0.2),
            std::make_shared<so::PolySolid>(ldvec(in), ldvec(out), ldvec(z), sector(0.15, 0.45), 5,
                                            0.2L));
    }
    {
        std::vector<double> out{1.2, 1.2, 0.7, 0.7}, z{-1.1, 0.0, 0.0, 0.9};
        add("pp6", "polyprism",
            std::make_shared<ci::PolyPrism>("pp6", ci::PolySegments{std::vector<double>(out), std::vector<double>(z)},
                                            ci::SolidEnclosedAngle{}, 6, 0.0),
            std::make_shared<so::PolySolid>(std::vector<ld>{}, ldvec(out), ldvec(z), nullptr, 6, 0.0L));
    }
    {
        std::vector<double> in{0.5, 0.5, 0.3, 0.3}, out{1.1, 1.1, 0.8, 0.8}, z{-0.9, 0.1, 0.1, 1.2};
        add("pp4hs", "polyprism-hollow-sliced",
            std::make_shared<ci::PolyPrism>("pp4hs",
                                            ci::PolySegments{std::vector<double>(in), std::vector<double>(out),
                                                             std::vector<double>(z)},
                                            ci::SolidEnclosedAngle{Turn{0.3}, Turn{0.8}}, 4, 0.5),
            std::make_shared<so::PolySolid>(ldvec(in), ldvec(out), ldvec(z), sector(0.3, 0.8), 4,
                                            0.5L));
    }
    // ---- EXTENDED leaves (index >= num_base_leaves; only enumerate(thorough, true) uses them) ----
    // -- GenPrism end faces written the G4GenericTrap way: a triangle given by four points, two
    //    consecutive ones coinciding.  All lateral faces are planar (a quadrilateral end is the
    //    same triangle with the corner opposite the duplicate cut off), hz = 1.
    {
        auto add_gp = [&](std::string name, std::string kind, VR2 lo, VR2 hi) {
            so::SP ora = std::make_shared<so::GenPrism>(ld(gpt_hz), poly(lo), poly(hi));
            try
            {
                add(name, kind, shape(name, ci::GenPrism{gpt_hz, lo, hi}), ora);
            }
            catch (std::exception const& e)
            {
                L.push_back({name, kind, nullptr, ora, e.what()});
            }
        };
        // lower face: v0 == v1 (duplicate among the LEADING three vertices)
        add_gp("gptlo", "genprism-leaddup-lo",
               VR2{{0.8, -0.8}, {0.8, -0.8}, {0.8, 0.8}, {-0.8, 0.0}},
               VR2{{0.6, -0.7}, {0.8, -0.6}, {0.8, 0.8}, {-0.8, 0.0}});
        // upper face: v1 == v2
        add_gp("gpthi", "genprism-leaddup-hi",
               VR2{{0.8, -0.8}, {0.8, 0.6}, {0.6, 0.7}, {-0.8, 0.0}},
               VR2{{0.8, -0.8}, {0.8, 0.8}, {0.8, 0.8}, {-0.8, 0.0}});
        // triangular prism, both faces with v0 == v1
        add_gp("gptboth", "genprism-leaddup-both",
               VR2{{0.8, -0.8}, {0.8, -0.8}, {0.8, 0.8}, {-0.8, 0.0}},
               VR2{{0.7, -0.6}, {0.7, -0.6}, {0.7, 0.6}, {-0.5, 0.0}});
        // controls: duplicate NOT among the leading three: v2 == v3 (lower), v3 == v0 (upper)
        add_gp("gpttail", "genprism-dup-tail",
               VR2{{0.8, -0.8}, {0.8, 0.8}, {-0.8, 0.0}, {-0.8, 0.0}},
               VR2{{0.8, -0.8}, {0.8, 0.8}, {-0.6, 0.1}, {-0.6, -0.1}});
        add_gp("gptwrap", "genprism-dup-wrap",
               VR2{{0.8, -0.6}, {0.8, 0.8}, {-0.8, 0.0}, {0.6, -0.7}},
               VR2{{0.8, -0.8}, {0.8, 0.8}, {-0.8, 0.0}, {0.8, -0.8}});
    }
    return L;
}

inline std::vector<Obj> const& leaves()
{
    static std::vector<Obj> const l = make_leaves();
    return l;
}
inline int find_leaf(std::string const& name)
{
    auto const& l = leaves();
    for (size_t i = 0; i < l.size(); ++i)
        if (l[i].name == name)
            return int(i);
    return -1;
}

//---------------------------------------------------------------------------//
// TRANSFORMS
//---------------------------------------------------------------------------//
struct Xf
{
    std::string name;
    bool identity{false};
    bool rotates{false};
    double r[3][3] = {{1, 0, 0}, {0, 1, 0}, {0, 0, 1}};
    double t[3] = {0, 0, 0};

    celeritas::VariantTransform variant() const
    {
        if (identity)
            return celeritas::NoTransformation{};
        if (!rotates)
            return celeritas::Translation{Real3{t[0], t[1], t[2]}};
        celeritas::SquareMatrixReal3 m;
        for (int i = 0; i < 3; ++i)
            for (int j = 0; j < 3; ++j)
                m[i][j] = r[i][j];
        return celeritas::Transformation{m, Real3{t[0], t[1], t[2]}};
    }
    so::M3 m3() const
    {
        so::M3 m;
        for (int i = 0; i < 3; ++i)
            for (int j = 0; j < 3; ++j)
                m.m[i][j] = r[i][j];
        return m;
    }
    so::V3 v3() const { return {ld(t[0]), ld(t[1]), ld(t[2])}; }
};

//! 0 id, 1 translation, 2-4 quarter turns about x/y/z (x, z with translation), 5 a reflection,
//! 6 a generic rotation + translation, 7 quarter turn about x without / 8 about y with
//! translation, 9 a rotation far below the construction tolerance, and (index 10, for binary
//! operands only) a translation far below the tolerance (near-coincident surfaces that must be
//! merged)
inline std::vector<Xf> make_transforms()
{
    std::vector<Xf> v;
    auto set_r = [](Xf& x, std::initializer_list<double> m) {
        auto it = m.begin();
        for (int i = 0; i < 3; ++i)
            for (int j = 0; j < 3; ++j)
                x.r[i][j] = *it++;
        x.rotates = true;
    };
    {
        Xf x;
        x.name = "id";
        x.identity = true;
        v.push_back(x);
    }
    {
        Xf x;
        x.name = "tr";
        x.t[0] = 0.55, x.t[1] = -0.35, x.t[2] = 0.4;
        v.push_back(x);
    }
    {
        Xf x;
        x.name = "rx";  // +1/4 turn about x: y -> z
        set_r(x, {1, 0, 0, 0, 0, -1, 0, 1, 0});
        x.t[0] = 0.1, x.t[1] = 0.3, x.t[2] = -0.2;
        v.push_back(x);
    }
    {
        Xf x;
        x.name = "ry";  // +1/4 turn about y: z -> x
        set_r(x, {0, 0, 1, 0, 1, 0, -1, 0, 0});
        v.push_back(x);
    }
    {
        Xf x;
        x.name = "rz";  // +1/4 turn about z: x -> y
        set_r(x, {0, -1, 0, 1, 0, 0, 0, 0, 1});
        x.t[0] = -0.25, x.t[1] = 0.15, x.t[2] = 0.0;
        v.push_back(x);
    }
    {
        Xf x;
        x.name = "refl";  // mirror x -> -x
        set_r(x, {-1, 0, 0, 0, 1, 0, 0, 0, 1});
        x.t[0] = 0.2, x.t[1] = 0.0, x.t[2] = 0.1;
        v.push_back(x);
    }
    {
        Xf x;
        x.name = "gen";  // 0.13 turn about (1,2,3)
        so::M3 m = so::rotation_about({1, 2, 3}, 0.13L);
        for (int i = 0; i < 3; ++i)
            for (int j = 0; j < 3; ++j)
                x.r[i][j] = double(m.m[i][j]);
        x.rotates = true;
        x.t[0] = 0.3, x.t[1] = 0.5, x.t[2] = -0.2;
        v.push_back(x);
    }
    {
        Xf x;
        x.name = "rx0";  // quarter turn about x without translation (centred y-aligned surfaces)
        set_r(x, {1, 0, 0, 0, 0, -1, 0, 1, 0});
        v.push_back(x);
    }
    {
        Xf x;
        x.name = "ryt";  // quarter turn about y with translation (off-centre x-aligned surfaces)
        set_r(x, {0, 0, 1, 0, 1, 0, -1, 0, 0});
        x.t[0] = 0.0, x.t[1] = -0.3, x.t[2] = 0.25;
        v.push_back(x);
    }
    {
        Xf x;
        x.name = "tinyrot";  // rotation about z by 1.3e-9 rad: moves points < 1e-8 within the world
        so::M3 m = so::rotation_about({0, 0, 1}, 2e-10L);
        for (int i = 0; i < 3; ++i)
            for (int j = 0; j < 3; ++j)
                x.r[i][j] = double(m.m[i][j]);
        x.rotates = true;
        v.push_back(x);
    }
    {
        Xf x;
        x.name = "tiny";  // a third of the default absolute tolerance (1.5e-8)
        x.t[0] = 5e-9, x.t[1] = 0, x.t[2] = -2e-9;
        v.push_back(x);
    }
    // ---- EXTENDED transforms (never part of the base enumeration) ----
    // mirror pair: +-1/12 turn about x, both centred at the same point of the rotation axis.  A
    // z-symmetric curved leaf placed under both gives two general quadrics that differ ONLY in
    // the sign of their cross terms (second/first/zeroth coefficients are identical)
    for (int sgn : {1, -1})
    {
        Xf x;
        x.name = sgn > 0 ? "tiltp" : "tiltm";
        so::M3 m = so::rotation_about({1, 0, 0}, ld(sgn) / 12);
        for (int i = 0; i < 3; ++i)
            for (int j = 0; j < 3; ++j)
                x.r[i][j] = double(m.m[i][j]);
        x.rotates = true;
        x.t[0] = 0.4, x.t[1] = 0, x.t[2] = 0;
        v.push_back(x);
    }
    // far family: translation t0 with |t0| ~ 50 (and the same with the "gen" rotation), and copies
    // displaced from it by 4e-3 resp. 8e-3 along (0.48, -0.6, 0.64).  Under the second tolerance
    // (rel 1e-6, abs 1e-4) these are 40 x resp. 80 x the absolute and 80 x resp. 160 x the
    // relative tolerance (rel * |t0| = 5e-5): the copies' surfaces must stay distinct.
    for (int rot = 0; rot < 2; ++rot)
        for (int k : {0, 4, 8})
        {
            Xf x = rot ? v[6] : Xf{};
            x.name = std::string(rot ? "farg" : "far") + (k ? std::to_string(k) : std::string());
            x.identity = false;
            double const d = 1e-3 * k;
            x.t[0] = 30 + 0.48 * d, x.t[1] = -35 - 0.6 * d, x.t[2] = 20 + 0.64 * d;
            v.push_back(x);
        }
    return v;
}
inline std::vector<Xf> const& transforms()
{
    static std::vector<Xf> const t = make_transforms();
    return t;
}
constexpr int num_unary_transforms = 10;  // without "tiny"
constexpr int num_binary_transforms = 11;
constexpr int num_daughter_transforms = 7;
constexpr int xf_tr = 1, xf_rz = 4, xf_gen = 6, xf_tinyrot = 9, xf_tiny = 10;
constexpr int xf_tiltp = 11, xf_tiltm = 12;
constexpr int xf_far = 13, xf_far4 = 14, xf_far8 = 15, xf_farg = 16, xf_farg4 = 17, xf_farg8 = 18;
//! Unit vector of the displacement between the far copies
constexpr double far_dir[3] = {0.48, -0.6, 0.64};

//! Construction tolerances: 0 = Tolerance::from_default() (rel = abs = 1.5e-8), 1 =
//! Tolerance::from_relative(1e-6, 100): rel = 1e-6, abs = 1e-4 (abs != rel, length scale != 1)
constexpr int num_tolerances = 2;
inline celeritas::Tolerance<> tolerance_of(int index)
{
    return index == 0 ? celeritas::Tolerance<>::from_default()
                      : celeritas::Tolerance<>::from_relative(1e-6, 100.);
}

inline Obj transformed(Obj const& o, Xf const& x)
{
    if (x.identity)
        return o;
    Obj r;
    r.name = x.name + "(" + o.name + ")";
    r.kind = o.kind;
    r.obj = std::make_shared<ci::Transformed>(o.obj, x.variant());
    r.ora = std::make_shared<so::Transformed>(o.ora, x.m3(), x.v3());
    return r;
}
inline Obj negated(Obj const& o)
{
    Obj r;
    r.name = "not(" + o.name + ")";
    r.kind = o.kind;
    r.obj = std::make_shared<ci::NegatedObject>("n." + o.name, o.obj);
    r.ora = std::make_shared<so::Negated>(o.ora);
    return r;
}
enum Op
{
    op_union = 0,
    op_inter = 1,
    op_sub = 2
};
inline char const* op_name(int op)
{
    return op == op_union ? "or" : op == op_inter ? "and" : "sub";
}
inline Obj combine(int op, Obj const& a, Obj const& b)
{
    Obj r;
    r.name = std::string(op_name(op)) + "(" + a.name + "," + b.name + ")";
    r.kind = std::string(op_name(op));
    std::string label = r.name;
    if (op == op_union)
    {
        r.obj = std::make_shared<ci::AnyObjects>(std::move(label),
                                                 ci::AnyObjects::VecObject{a.obj, b.obj});
        r.ora = std::make_shared<so::Any>(std::vector<so::SP>{a.ora, b.ora});
    }
    else if (op == op_inter)
    {
        r.obj = std::make_shared<ci::AllObjects>(std::move(label),
                                                 ci::AllObjects::VecObject{a.obj, b.obj});
        r.ora = std::make_shared<so::All>(std::vector<so::SP>{a.ora, b.ora});
    }
    else
    {
        r.obj = ci::make_subtraction(std::move(label), a.obj, b.obj);
        r.ora = so::subtraction(a.ora, b.ora);
    }
    return r;
}

//---------------------------------------------------------------------------//
// UNITS: analytic model
//---------------------------------------------------------------------------//
struct UnitModel
{
    std::string label;
    so::SP boundary;  //!< in the unit's frame
    bool has_background{false};
    std::string background_label;
    struct Material
    {
        std::string label;
        so::SP region;
    };
    std::vector<Material> materials;
    struct Daughter
    {
        int unit;  //!< index into Program::units
        so::M3 r;  //!< daughter-to-parent
        so::V3 t;
    };
    std::vector<Daughter> daughters;
};

struct Expect
{
    enum Kind
    {
        ambiguous,  //!< closer than the threshold to some surface: no claim
        outside,  //!< outside the global boundary
        volume,  //!< in the volume named `label`
        overlap,  //!< model error: two claims (generator bug)
        hole  //!< model error: nothing claims the point and there is no background
    };
    Kind kind{ambiguous};
    std::string label;
    int level{0};
    ld clearance{so::kInf};
};

struct Program
{
    std::string id;
    std::vector<std::string> tags;
    std::shared_ptr<ci::UnitProto const> world;
    std::vector<UnitModel> units;  //!< [0] is the world
    so::Box3 probe;  //!< finite probe region (slightly larger than the world)
    so::Box3 content;  //!< box around the material regions (world frame), for a denser lattice
    std::vector<so::Box3> more_content;  //!< further boxes of that kind (one more lattice each)
    //! The leaves of the object tree: diagnostics only (attribution of a disagreement)
    struct Part
    {
        std::string kind;
        int leaf;  //!< index into leaves()
        int xf;  //!< index into transforms()
        std::shared_ptr<so::Flippable const> node;
    };
    std::vector<Part> parts;
    //! Frame in which the object tree is defined (the daughter's for daughter placements)
    so::M3 tree_r;
    so::V3 tree_t;
    double scale{1};  //!< largest |coordinate| of the world: length scale for the tolerance
    int tol{0};  //!< index for tolerance_of(): the construction tolerance build_input() uses
    //! > 0: additionally probe around every change of the expected label along lines parallel to
    //! `directed_dir` through the content box, at offsets of odd multiples of directed_len / 2
    //! (thin regions between two copies displaced by directed_len along that direction)
    double directed_len{0};
    double directed_dir[3] = {0, 0, 1};

    //! Where is the point, by the definition of units/materials/daughters?  `threshold` is the
    //! ambiguity distance (>= 10 x construction tolerance)
    Expect locate(so::V3 const& p, ld threshold) const
    {
        Expect e;
        locate_impl(0, p, &e);
        if (e.kind != Expect::overlap && e.kind != Expect::hole && !(e.clearance >= threshold))
            e.kind = Expect::ambiguous;
        return e;
    }

  private:
    void locate_impl(int u, so::V3 const& p, Expect* e) const
    {
        UnitModel const& um = units[u];
        so::Ev b = um.boundary->eval(p);
        e->clearance = std::min(e->clearance, b.clr);
        int claims = 0;
        int which_mat = -1, which_dau = -1;
        so::V3 local{};
        for (size_t i = 0; i < um.daughters.size(); ++i)
        {
            auto const& d = um.daughters[i];
            so::V3 q = so::to_daughter(d.r, d.t, p);
            so::Ev ev = units[d.unit].boundary->eval(q);
            e->clearance = std::min(e->clearance, ev.clr);
            if (ev.in)
            {
                ++claims;
                which_dau = int(i);
                local = q;
            }
        }
        for (size_t i = 0; i < um.materials.size(); ++i)
        {
            so::Ev ev = um.materials[i].region->eval(p);
            e->clearance = std::min(e->clearance, ev.clr);
            if (ev.in)
            {
                ++claims;
                which_mat = int(i);
            }
        }
        if (!b.in)
        {
            // outside this unit's boundary: exterior; nothing else may claim the point
            if (claims)
            {
                e->kind = Expect::overlap;
                e->label = "outside boundary of " + um.label + " but claimed";
                return;
            }
            if (u == 0)
            {
                e->kind = Expect::outside;
                e->label = "[EXTERIOR]";
                return;
            }
            // a daughter is only entered where the parent says we are inside its boundary
            e->kind = Expect::overlap;
            e->label = "entered daughter " + um.label + " outside its boundary";
            return;
        }
        if (claims > 1)
        {
            e->kind = Expect::overlap;
            e->label = "two claims in " + um.label;
            return;
        }
        if (claims == 0)
        {
            if (um.has_background)
            {
                e->kind = Expect::volume;
                e->label = um.background_label;
                e->level = (u == 0 ? 0 : 1);
            }
            else
            {
                e->kind = Expect::hole;
                e->label = "nothing claims the point in " + um.label;
            }
            return;
        }
        if (which_mat >= 0)
        {
            e->kind = Expect::volume;
            e->label = um.materials[which_mat].label;
            e->level = (u == 0 ? 0 : 1);
            return;
        }
        locate_impl(um.daughters[which_dau].unit, local, e);
    }
};

//---------------------------------------------------------------------------//
// PLACEMENT
//---------------------------------------------------------------------------//
enum Placement
{
    pl_implicit = 0,  //!< global unit: box boundary (zorder exterior) + background, {A}
    pl_explicit = 1,  //!< global unit: box boundary (zorder media), {A, boundary - A}
    pl_sphere_bg = 2,  //!< global unit: sphere boundary (zorder media) + background, {A}
    pl_daughter_explicit = 3,  //!< daughter {A, box - A} (media) in explicit world under a transform
    pl_daughter_implicit = 4,  //!< daughter {A} + bg, sphere boundary (exterior) in implicit world
    num_placements = 5,  //!< placements of the base zoo
    // extended (boundary + background only; the shape the Geant4 converter gives every leaf
    // logical volume):
    pl_self_world = 5,  //!< global unit {boundary = A (media), background}: no materials at all
    pl_self_daughter = 6,  //!< daughter {boundary = A (media), background only} in implicit world
    num_placements_ext = 7
};
inline char const* placement_name(int p)
{
    static char const* const n[] = {"impl", "expl", "sphbg", "dauX", "dauI", "selfW", "selfD"};
    return n[p];
}

namespace detail
{
inline Obj context_box()
{
    Obj c;
    c.name = "ctx";
    c.kind = "box";
    c.obj = shape("ctx", ci::Box{Real3{2.3, 2.1, 1.9}});
    c.ora = std::make_shared<so::Box>(2.3L, 2.1L, 1.9L);
    return c;
}
//! Make an object bounded: intersect with the context box if its analytic bbox is not finite
inline Obj bounded(Obj const& x, bool* wrapped)
{
    so::Box3 b = x.ora->bbox();
    *wrapped = false;
    if (b.finite() || b.empty())
        return x;
    *wrapped = true;
    Obj c = context_box();
    Obj r;
    r.name = x.name;
    r.kind = x.kind;
    r.obj = std::make_shared<ci::AllObjects>("bounded." + x.name,
                                             ci::AllObjects::VecObject{x.obj, c.obj});
    r.ora = std::make_shared<so::All>(std::vector<so::SP>{x.ora, c.ora});
    return r;
}
inline double round_up(ld v)
{
    // two decimals, so that ids / messages are short and boundary planes are "plain" numbers
    return double(std::ceil(v * 100) / 100);
}
inline Obj make_box(std::string name, double hx, double hy, double hz)
{
    Obj c;
    c.name = name;
    c.kind = "box";
    c.obj = shape(std::move(name), ci::Box{Real3{hx, hy, hz}});
    c.ora = std::make_shared<so::Box>(ld(hx), ld(hy), ld(hz));
    return c;
}
inline Obj make_sphere(std::string name, double r)
{
    Obj c;
    c.name = name;
    c.kind = "sphere";
    c.obj = shape(std::move(name), ci::Sphere{r});
    c.ora = std::make_shared<so::Sphere>(ld(r));
    return c;
}
//! Origin-centred box enclosing `content` with a margin
inline Obj enclosing_box(std::string name, so::Box3 const& content, double pad)
{
    double h[3];
    for (int k = 0; k < 3; ++k)
        h[k] = round_up(std::max(std::fabs(content.lo[k]), std::fabs(content.hi[k])) * 1.1L + pad);
    return make_box(std::move(name), h[0], h[1], h[2]);
}
inline Obj enclosing_sphere(std::string name, so::Box3 const& content, double pad)
{
    ld r2 = 0;
    for (int k = 0; k < 3; ++k)
    {
        ld m = std::max(std::fabs(content.lo[k]), std::fabs(content.hi[k]));
        r2 += m * m;
    }
    return make_sphere(std::move(name), round_up(std::sqrt(r2) * 1.05L + pad));
}
inline ci::UnitProto::MaterialInput material(Obj const& o, unsigned fill, std::string label)
{
    ci::UnitProto::MaterialInput m;
    m.interior = o.obj;
    m.fill = GeoMaterialId{fill};
    m.label = Label{std::move(label)};
    return m;
}
inline Obj rest_of(std::string name, Obj const& boundary, std::vector<Obj> const& holes)
{
    Obj r;
    r.name = name;
    r.kind = "rdv";
    ci::VecSenseObj v{{Sense::inside, boundary.obj}};
    std::vector<std::pair<bool, so::SP>> ov{{true, boundary.ora}};
    for (auto const& h : holes)
    {
        v.push_back({Sense::outside, h.obj});
        ov.push_back({false, h.ora});
    }
    r.obj = ci::make_rdv(std::move(name), std::move(v));
    r.ora = so::rdv(ov);
    return r;
}
}  // namespace detail

//! Material regions of one unit (already disjoint by construction) + content box
struct Fill
{
    std::vector<std::pair<std::string, Obj>> materials;  //!< (label suffix, region)
    so::Box3 content;  //!< finite box enclosing all regions
};

//! Build the world for a list of disjoint bounded material regions
inline Program place(std::string id, Fill const& fill, int placement, Xf const& pxf)
{
    using namespace detail;
    Program prog;
    prog.id = std::move(id);
    prog.tags.push_back(std::string("place:") + placement_name(placement));

    auto add_materials = [&](ci::UnitProto::Input& inp, UnitModel& um, std::string const& prefix) {
        unsigned k = 1;
        for (auto const& m : fill.materials)
        {
            inp.materials.push_back(material(m.second, k++, prefix + m.first));
            um.materials.push_back({prefix + m.first, m.second.ora});
        }
    };
    auto holes = [&] {
        std::vector<Obj> h;
        for (auto const& m : fill.materials)
            h.push_back(m.second);
        return h;
    };

    so::Box3 world_content = fill.content;
    ci::UnitProto::Input winp;
    winp.label = "world";
    UnitModel wm;
    wm.label = "world";
    Obj wbound;

    if (placement == pl_implicit || placement == pl_explicit)
    {
        wbound = enclosing_box("wbox", fill.content, 0.3);
        add_materials(winp, wm, "w");
        if (placement == pl_implicit)
        {
            winp.boundary.zorder = ZOrder::exterior;
            winp.background.fill = GeoMaterialId{0};
            winp.background.label = Label{"wbg"};
            wm.has_background = true;
            wm.background_label = "wbg";
        }
        else
        {
            winp.boundary.zorder = ZOrder::media;
            Obj rest = rest_of("wrest", wbound, holes());
            winp.materials.push_back(material(rest, 9, "wrest"));
            wm.materials.push_back({"wrest", rest.ora});
        }
    }
    else if (placement == pl_self_world)
    {
        // the (single) region IS the boundary; the unit has a background and nothing else
        if (fill.materials.size() != 1)
            throw std::logic_error("pl_self_world needs exactly one region");
        wbound = fill.materials[0].second;
        winp.boundary.zorder = ZOrder::media;
        winp.background.fill = GeoMaterialId{0};
        winp.background.label = Label{"wbg"};
        wm.has_background = true;
        wm.background_label = "wbg";
    }
    else if (placement == pl_sphere_bg)
    {
        wbound = enclosing_sphere("wsph", fill.content, 0.3);
        add_materials(winp, wm, "w");
        winp.boundary.zorder = ZOrder::media;
        winp.background.fill = GeoMaterialId{0};
        winp.background.label = Label{"wbg"};
        wm.has_background = true;
        wm.background_label = "wbg";
    }
    else
    {
        // daughter unit holding the materials
        ci::UnitProto::Input dinp;
        dinp.label = "dau";
        UnitModel dm;
        dm.label = "dau";
        Obj dbound;
        if (placement != pl_self_daughter)
            add_materials(dinp, dm, "d");
        if (placement == pl_self_daughter)
        {
            if (fill.materials.size() != 1)
                throw std::logic_error("pl_self_daughter needs exactly one region");
            dbound = fill.materials[0].second;
            dinp.boundary.zorder = ZOrder::media;
            dinp.background.fill = GeoMaterialId{7};
            dinp.background.label = Label{"dbg"};
            dm.has_background = true;
            dm.background_label = "dbg";
        }
        else if (placement == pl_daughter_explicit)
        {
            dbound = enclosing_box("dbox", fill.content, 0.2);
            dinp.boundary.zorder = ZOrder::media;
            Obj rest = rest_of("drest", dbound, holes());
            dinp.materials.push_back(material(rest, 8, "drest"));
            dm.materials.push_back({"drest", rest.ora});
        }
        else
        {
            dbound = enclosing_sphere("dsph", fill.content, 0.2);
            dinp.boundary.zorder = ZOrder::exterior;
            dinp.background.fill = GeoMaterialId{7};
            dinp.background.label = Label{"dbg"};
            dm.has_background = true;
            dm.background_label = "dbg";
        }
        dinp.boundary.interior = dbound.obj;
        dm.boundary = dbound.ora;
        auto dproto = std::make_shared<ci::UnitProto>(std::move(dinp));

        // world around the transformed daughter
        Obj dplaced = transformed(dbound, pxf);
        world_content = dplaced.ora->bbox();
        if (!world_content.finite())
            world_content = transformed(enclosing_box("tmp", fill.content, 0), pxf).ora->bbox();
        ci::UnitProto::DaughterInput di;
        di.fill = dproto;
        di.transform = pxf.variant();
        di.zorder = ZOrder::media;
        winp.daughters.push_back(di);
        wm.daughters.push_back({1, pxf.m3(), pxf.v3()});
        wbound = enclosing_box("wbox", world_content, 0.3);
        if (placement == pl_daughter_explicit)
        {
            winp.boundary.zorder = ZOrder::media;
            Obj dint;
            dint.name = "dint";
            dint.obj = winp.daughters.front().make_interior();
            dint.ora = dplaced.ora;
            Obj rest = rest_of("wrest", wbound, {dint});
            winp.materials.push_back(material(rest, 9, "wrest"));
            wm.materials.push_back({"wrest", rest.ora});
        }
        else
        {
            winp.boundary.zorder = ZOrder::exterior;
            winp.background.fill = GeoMaterialId{0};
            winp.background.label = Label{"wbg"};
            wm.has_background = true;
            wm.background_label = "wbg";
        }
        prog.units.resize(2);
        prog.units[1] = std::move(dm);
        prog.tree_r = pxf.m3();
        prog.tree_t = pxf.v3();
        prog.tags.push_back("pxf:" + pxf.name);
    }
    winp.boundary.interior = wbound.obj;
    wm.boundary = wbound.ora;
    if (prog.units.empty())
        prog.units.resize(1);
    prog.units[0] = std::move(wm);
    prog.world = std::make_shared<ci::UnitProto>(std::move(winp));

    // content box in the world frame, 10% larger
    {
        so::Box3 c = so::Box3::make_empty();
        for (int corner = 0; corner < 8; ++corner)
        {
            so::V3 q{(corner & 1) ? fill.content.hi[0] : fill.content.lo[0],
                     (corner & 2) ? fill.content.hi[1] : fill.content.lo[1],
                     (corner & 4) ? fill.content.hi[2] : fill.content.lo[2]};
            c.grow(so::to_parent(prog.tree_r, prog.tree_t, q));
        }
        for (int k = 0; k < 3; ++k)
        {
            ld mid = (c.lo[k] + c.hi[k]) / 2, half = (c.hi[k] - c.lo[k]) / 2 * 1.1L;
            c.lo[k] = mid - half;
            c.hi[k] = mid + half;
        }
        prog.content = c;
    }
    // probe region: 8% beyond the world boundary's box
    so::Box3 wb = wbound.ora->bbox();
    if (placement == pl_self_world)
        wb = enclosing_box("probe", fill.content, 0.3).ora->bbox();
    prog.probe = wb;
    prog.scale = 0;
    for (int k = 0; k < 3; ++k)
    {
        prog.probe.lo[k] = wb.lo[k] * 1.08L;
        prog.probe.hi[k] = wb.hi[k] * 1.08L;
        prog.scale = std::max(prog.scale, double(std::max(std::fabs(wb.lo[k]), std::fabs(wb.hi[k]))));
    }
    return prog;
}

//---------------------------------------------------------------------------//
// KEYS / ENUMERATION
//---------------------------------------------------------------------------//
struct Key
{
    //! 'u' unary, 'b' binary, 'p' partition {A&B, A-B, B-A}, 't' ternary,
    //! 'n' near-coincident: xa(A) op xb(xa(A)) with xb below the tolerance (nested transforms),
    //! 'c' two differently placed copies of one leaf: xa(A) op xb(A)
    char kind{'u'};
    int a{0}, b{-1}, c{-1};
    int xa{0}, xb{0}, xc{0};
    int op1{0}, op2{0};
    int neg{0};
    int place{0};
    int pxf{0};
    int tol{0};  //!< construction tolerance index (tolerance_of)

    std::string id() const
    {
        auto const& L = leaves();
        auto const& T = transforms();
        std::string s(1, kind);
        s += ":a=" + L[a].name + ",xa=" + T[xa].name;
        if (kind == 'u')
            s += ",neg=" + std::to_string(neg);
        if (kind == 'n' || kind == 'c' || kind == 'f')
            s += ",xb=" + T[xb].name;
        else if (kind != 'u')
            s += ",b=" + L[b].name + ",xb=" + T[xb].name;
        if (kind == 'b' || kind == 't' || kind == 'n' || kind == 'c' || kind == 'f')
            s += std::string(",op=") + op_name(op1);
        if (kind == 'h')
            s += ",order=" + std::to_string(op2);
        if (kind == 't')
            s += ",c=" + L[c].name + ",xc=" + T[xc].name + ",op2=" + op_name(op2);
        s += std::string(",pl=") + (kind == 'h' ? "hier" : placement_name(place));
        if (place == pl_daughter_explicit || place == pl_daughter_implicit || place == pl_self_daughter)
            s += ",px=" + T[pxf].name;
        if (tol)
            s += ",tol=" + std::to_string(tol);
        return s;
    }
};

//! The finite program space of a tier, in a fixed order.  `extended` = false: the base zoo (50
//! leaves, kinds u/b/n/c/p/t; what C19 re-uses); true: additionally the extended leaves in kind u
//! and the extension families appended at the end (see enumerate_extension).
inline void enumerate_extension(bool thorough, std::vector<Key>& keys);
inline std::vector<Key> enumerate(bool thorough, bool extended = false)
{
    std::vector<Key> keys;
    int const nl = num_base_leaves;
    // unary: leaf x transform x {plain, negated} x placement (x daughter transform)
    for (int a = 0; a < (extended ? int(leaves().size()) : nl); ++a)
        for (int xa = 0; xa < num_unary_transforms; ++xa)
            for (int neg = 0; neg < 2; ++neg)
                for (int pl = 0; pl < num_placements; ++pl)
                {
                    int npx = pl >= pl_daughter_explicit ? num_daughter_transforms : 1;
                    for (int px = 0; px < npx; ++px)
                    {
                        if (!thorough && npx > 1)
                        {
                            // quick: every (leaf transform, daughter transform) pair is still
                            // covered, spread over the leaves' two polarities (extended: the
                            // parity alternates with the leaf index, so that over the leaves
                            // BOTH polarities meet every transform pair)
                            if ((px + xa + neg + (extended ? a : 0)) % 2)
                                continue;
                        }
                        Key k;
                        k.kind = 'u';
                        k.a = a, k.xa = xa, k.neg = neg, k.place = pl, k.pxf = px;
                        keys.push_back(k);
                    }
                }
    // binary: all ordered leaf pairs x {union, intersection, subtraction} x transform of B
    for (int a = 0; a < nl; ++a)
        for (int b = 0; b < nl; ++b)
            for (int op = 0; op < 3; ++op)
                for (int xb = 0; xb < num_binary_transforms; ++xb)
                {
                    if (!thorough && !(xb == xf_tr || xb == xf_gen || xb == (a + b) % 10))
                        continue;
                    Key k;
                    k.kind = 'b';
                    k.a = a, k.b = b, k.op1 = op, k.xb = xb;
                    // extended: on a third of the pairs the FIRST operand is placed too (quarter
                    // turn about z + translation): two different leaves both off-centre / rotated
                    if (extended && (a + 2 * b) % 3 == 0)
                        k.xa = xf_rz;
                    k.place = thorough ? ((a + b + op + xb) % 2 ? pl_daughter_explicit : pl_implicit)
                                       : pl_implicit;
                    k.pxf = xf_gen;
                    keys.push_back(k);
                }
    // near-coincident copies under every transform (soft de-duplication of every surface type,
    // composition of nested transforms)
    for (int a = 0; a < nl; ++a)
        for (int xa = 0; xa < num_unary_transforms; ++xa)
            for (int op = 0; op < 3; ++op)
                for (int xb : {xf_tiny, xf_tinyrot})
                {
                    Key k;
                    k.kind = 'n';
                    k.a = a, k.b = a, k.xa = xa, k.xb = xb, k.op1 = op;
                    k.place = pl_implicit;
                    keys.push_back(k);
                }
    // two differently placed copies of the same leaf (surfaces that agree in some coefficients:
    // equal radii / displacements / opening angles with different origins or normals)
    for (int a = 0; a < nl; ++a)
        for (int xa = 1; xa < num_unary_transforms; ++xa)
            for (int xb = 1; xb < num_unary_transforms; ++xb)
            {
                if (xa == xb)
                    continue;
                bool const in_quick = (xa == 1 && xb == 4) || (xa == 1 && xb == 6) || (xa == 2 && xb == 8)
                                      || (xa == 5 && xb == 6) || (xa == 7 && xb == 3);
                if (!thorough && !in_quick)
                    continue;
                for (int op = 0; op < 3; ++op)
                {
                    Key k;
                    k.kind = 'c';
                    k.a = a, k.b = a, k.xa = xa, k.xb = xb, k.op1 = op;
                    k.place = pl_implicit;
                    keys.push_back(k);
                }
            }
    // partition of A u B into three disjoint materials in one unit
    for (int a = 0; a < nl; ++a)
        for (int b = 0; b < nl; ++b)
            for (int xb = 1; xb < num_binary_transforms; ++xb)
            {
                if (!thorough && xb != ((a + b) % 2 ? xf_tr : xf_gen))
                    continue;
                Key k;
                k.kind = 'p';
                k.a = a, k.b = b, k.xb = xb;
                if (extended && (a + 2 * b) % 3 == 1)
                    k.xa = xf_rz;
                k.place = (a + b + xb) % 2 ? pl_explicit : pl_implicit;
                keys.push_back(k);
            }
    if (thorough)
    {
        // depth 3 over a 12-leaf subset: (A op1 tr(B)) op2 gen(C)
        static char const* const sub[] = {"box1", "sph1", "cyl1", "cone1", "ell1", "pri6",
                                          "trd", "gptw", "para0", "cylsh", "cylsl2", "pc1"};
        std::vector<int> s;
        for (auto const* n : sub)
            s.push_back(find_leaf(n));
        for (int a : s)
            for (int b : s)
                for (int c : s)
                    for (int op1 = 0; op1 < 3; ++op1)
                        for (int op2 = 0; op2 < 3; ++op2)
                        {
                            Key k;
                            k.kind = 't';
                            k.a = a, k.b = b, k.c = c, k.op1 = op1, k.op2 = op2;
                            k.xb = xf_tr, k.xc = xf_gen;
                            if (extended && (a + 2 * b + c) % 3 == 2)
                                k.xa = xf_rz;
                            k.place = pl_implicit;
                            keys.push_back(k);
                        }
    }
    if (extended)
        enumerate_extension(thorough, keys);
    return keys;
}

//! Extension families (C09 only), appended after the base zoo
inline void enumerate_extension(bool thorough, std::vector<Key>& keys)
{
    int const nb = num_base_leaves;
    int const nl = int(leaves().size());
    // c-mirror: the same leaf under the mirror pair of tilts (two general quadrics that differ
    // only in their cross terms must stay two surfaces)
    for (int a = 0; a < nb; ++a)
        for (int op = 0; op < 3; ++op)
        {
            Key k;
            k.kind = 'c';
            k.a = a, k.b = a, k.xa = xf_tiltp, k.xb = xf_tiltm, k.op1 = op;
            k.place = pl_implicit;
            keys.push_back(k);
        }
    // b-ext: every extended leaf with three base partners, both operand orders
    for (int a = nb; a < nl; ++a)
        for (char const* partner : {"box1", "sph1", "cyl1"})
            for (int order = 0; order < 2; ++order)
                for (int op = 0; op < 3; ++op)
                    for (int xb : {xf_tr, xf_gen})
                    {
                        Key k;
                        k.kind = 'b';
                        k.a = order ? find_leaf(partner) : a;
                        k.b = order ? a : find_leaf(partner);
                        k.op1 = op, k.xb = xb;
                        k.place = pl_implicit;
                        k.pxf = xf_gen;
                        keys.push_back(k);
                    }
    // ---- second construction tolerance (tolerance_of(1): rel 1e-6, abs 1e-4) ----
    // u: every leaf x every transform x polarity x {implicit, explicit} global unit
    for (int a = 0; a < nl; ++a)
        for (int xa = 0; xa < num_unary_transforms; ++xa)
            for (int neg = 0; neg < 2; ++neg)
                for (int pl : {int(pl_implicit), int(pl_explicit)})
                {
                    Key k;
                    k.kind = 'u';
                    k.a = a, k.xa = xa, k.neg = neg, k.place = pl, k.tol = 1;
                    keys.push_back(k);
                }
    // c: differently placed copies (4 transform pairs incl. the mirror pair)
    {
        int const pairs[4][2] = {{1, 6}, {7, 3}, {2, 8}, {xf_tiltp, xf_tiltm}};
        for (int a = 0; a < nb; ++a)
            for (auto const& pr : pairs)
                for (int op = 0; op < 3; ++op)
                {
                    Key k;
                    k.kind = 'c';
                    k.a = a, k.b = a, k.xa = pr[0], k.xb = pr[1], k.op1 = op, k.tol = 1;
                    k.place = pl_implicit;
                    keys.push_back(k);
                }
    }
    // n: near-coincident copies (quick: under id / tr / gen only)
    for (int a = 0; a < nb; ++a)
        for (int xa = 0; xa < num_unary_transforms; ++xa)
        {
            if (!thorough && !(xa == 0 || xa == xf_tr || xa == xf_gen))
                continue;
            for (int op = 0; op < 3; ++op)
                for (int xb : {xf_tiny, xf_tinyrot})
                {
                    Key k;
                    k.kind = 'n';
                    k.a = a, k.b = a, k.xa = xa, k.xb = xb, k.op1 = op, k.tol = 1;
                    k.place = pl_implicit;
                    keys.push_back(k);
                }
        }
    // f: two copies of a leaf at |t| ~ 50, displaced by 4e-3 / 8e-3 from one another (far
    // beyond either tolerance): both tolerances (quick, default tolerance: the 4e-3 pairs only)
    {
        int const pairs[4][2]
            = {{xf_far, xf_far4}, {xf_farg, xf_farg4}, {xf_far, xf_far8}, {xf_farg, xf_farg8}};
        for (int a = 0; a < nb; ++a)
            for (int tol = 1; tol >= 0; --tol)
                for (int pi = 0; pi < 4; ++pi)
                {
                    if (!thorough && tol == 0 && pi >= 2)
                        continue;
                    for (int op = 0; op < 3; ++op)
                    {
                        Key k;
                        k.kind = 'f';
                        k.a = a, k.b = a, k.xa = pairs[pi][0], k.xb = pairs[pi][1], k.op1 = op;
                        k.tol = tol;
                        k.place = pl_implicit;
                        keys.push_back(k);
                    }
                }
    }
    // ---- units made of a boundary and a background only (default tolerance) ----
    // (the three Parallelepiped leaves with the recorded bounding-box defect are left out: here it
    // would surface in the parent's daughter volume, under a signature that is not attributed)
    for (int a = 0; a < nl; ++a)
        for (int xa = 0; xa < num_unary_transforms; ++xa)
        {
            if (leaves()[a].kind.rfind("parallelepiped-", 0) == 0)
                continue;
            for (int neg = 0; neg < 2; ++neg)
                for (int pl : {int(pl_self_world), int(pl_self_daughter)})
                {
                    int npx = pl == pl_self_daughter ? num_daughter_transforms : 1;
                    for (int px = 0; px < npx; ++px)
                    {
                        if (!thorough && npx > 1 && (px + xa + neg + a) % 2)
                            continue;
                        Key k;
                        k.kind = 'u';
                        k.a = a, k.xa = xa, k.neg = neg, k.place = pl, k.pxf = px;
                        keys.push_back(k);
                    }
                }
        }
    // ---- hierarchy: 4 universes, depth 3, one proto placed twice ----
    // (leaves with a recorded defect of their own are left out: a disagreement in this family
    // is not attributed to a leaf)
    {
        std::vector<int> bs;
        for (char const* n : {"sph1", "pc1"})
            bs.push_back(find_leaf(n));
        if (thorough)
            for (char const* n : {"box1", "cylsh"})
                bs.push_back(find_leaf(n));
        for (int a = 0; a < nb; ++a)
        {
            if (leaves()[a].kind.rfind("parallelepiped-", 0) == 0)
                continue;
            for (int b : bs)
                for (int order = 0; order < 2; ++order)
                    for (int xa : {xf_tr, 2})
                    {
                        if (!thorough && xa != xf_tr)
                            continue;
                        Key k;
                        k.kind = 'h';
                        k.a = a, k.b = b, k.xa = xa, k.xb = xf_gen, k.op2 = order;
                        keys.push_back(k);
                    }
        }
    }
}

inline Program build_hierarchy(Key const& k);

//! Build the program of a key.  Construction errors of the library propagate as exceptions.
inline Program build(Key const& k)
{
    auto const& L = leaves();
    auto const& T = transforms();
    Fill fill;
    fill.content = so::Box3::make_empty();
    std::vector<std::string> tags;
    std::vector<Program::Part> parts;
    auto leaf = [&](int idx, int xf) {
        if (!L[idx].obj)
            throw std::runtime_error(L[idx].error);
        tags.push_back("leaf:" + L[idx].kind);
        tags.push_back("xf:" + T[xf].name);
        Obj base = L[idx];
        auto flippable = std::make_shared<so::Flippable>(base.ora);
        base.ora = flippable;
        parts.push_back({base.kind, idx, xf, flippable});
        Obj o = transformed(base, T[xf]);
        so::Box3 b = o.ora->bbox();
        if (!b.finite())
            b = detail::context_box().ora->bbox();
        fill.content = so::box_union(fill.content, b);
        return o;
    };
    bool wrapped = false;
    if (k.kind == 'u')
    {
        Obj x = leaf(k.a, k.xa);
        if (k.neg)
        {
            x = negated(x);
            tags.push_back("op:not");
            fill.content = so::box_union(fill.content, detail::context_box().ora->bbox());
        }
        fill.materials.push_back({"A", detail::bounded(x, &wrapped)});
    }
    else if (k.kind == 'b')
    {
        Obj a = leaf(k.a, k.xa);
        Obj b = leaf(k.b, k.xb);
        tags.push_back(std::string("op:") + op_name(k.op1));
        fill.materials.push_back({"A", detail::bounded(combine(k.op1, a, b), &wrapped)});
    }
    else if (k.kind == 'h')
    {
        Program p = build_hierarchy(k);
        p.tol = k.tol;
        return p;
    }
    else if (k.kind == 'c' || k.kind == 'f')
    {
        Obj a = leaf(k.a, k.xa);
        Obj b = leaf(k.a, k.xb);
        tags.push_back(std::string(k.kind == 'f' ? "op:far-copies-" : "op:copies-") + op_name(k.op1));
        fill.materials.push_back({"A", detail::bounded(combine(k.op1, a, b), &wrapped)});
    }
    else if (k.kind == 'n')
    {
        Obj a = leaf(k.a, k.xa);
        Obj b = transformed(leaf(k.a, k.xa), T[k.xb]);
        tags.push_back("xf:" + T[k.xb].name + "-nested");
        tags.push_back(std::string("op:near-") + op_name(k.op1));
        fill.materials.push_back({"A", detail::bounded(combine(k.op1, a, b), &wrapped)});
    }
    else if (k.kind == 'p')
    {
        Obj a = leaf(k.a, k.xa);
        Obj b = leaf(k.b, k.xb);
        tags.push_back("op:partition");
        bool w1, w2, w3;
        fill.materials.push_back({"AandB", detail::bounded(combine(op_inter, a, b), &w1)});
        fill.materials.push_back({"AnotB", detail::bounded(combine(op_sub, a, b), &w2)});
        fill.materials.push_back({"BnotA", detail::bounded(combine(op_sub, b, a), &w3)});
        wrapped = w1 || w2 || w3;
    }
    else
    {
        Obj a = leaf(k.a, k.xa);
        Obj b = leaf(k.b, k.xb);
        Obj c = leaf(k.c, k.xc);
        tags.push_back(std::string("op:") + op_name(k.op1) + "+" + op_name(k.op2));
        fill.materials.push_back(
            {"A", detail::bounded(combine(k.op2, combine(k.op1, a, b), c), &wrapped)});
    }
    if (wrapped)
        tags.push_back("bounded-by-context");
    Program p = place(k.id(), fill, k.place, T[k.pxf]);
    p.tags.insert(p.tags.end(), tags.begin(), tags.end());
    p.parts = std::move(parts);
    p.tol = k.tol;
    if (k.tol)
        p.tags.push_back("tol:" + std::to_string(k.tol));
    if (k.kind == 'f')
    {
        // |T[xb].t - T[xa].t| along far_dir
        double d2 = 0;
        for (int i = 0; i < 3; ++i)
            d2 += (T[k.xb].t[i] - T[k.xa].t[i]) * (T[k.xb].t[i] - T[k.xa].t[i]);
        p.directed_len = std::sqrt(d2);
        for (int i = 0; i < 3; ++i)
            p.directed_dir[i] = far_dir[i];
    }
    return p;
}

//! Kind h: four universes, depth 3, one proto placed twice, a deep and two shallow daughters:
//!   world (explicit box; material "wrest") { D1 under P1, D1 under P2, D2 under P3 }
//!   D1 (explicit box)                     = { "d1A" = xa(A), "d1rest" }
//!   D2 (implicit sphere + background "d2bg") = { D3 under P4 }
//!   D3 (explicit box)                     = { "d3B" = xb(B), "d3rest" }
//! P1 = translation, P2 = "gen" rotation + translation, P3 = quarter turn about z + translation,
//! P4 = "rx".  Key::op2 = order of the world's daughter list: 0 = D1, D1, D2 (deep one last),
//! 1 = D2, D1, D1 (deep one first).
inline Program build_hierarchy(Key const& k)
{
    using namespace detail;
    auto const& L = leaves();
    auto const& T = transforms();
    for (int idx : {k.a, k.b})
        if (!L[idx].obj)
            throw std::runtime_error(L[idx].error);
    Program prog;
    prog.id = k.id();
    prog.tags = {"place:hier",
                 std::string("hier:order-") + (k.op2 ? "deep-first" : "deep-last"),
                 "leaf:" + L[k.a].kind,
                 "leaf:" + L[k.b].kind,
                 "xf:" + T[k.xa].name,
                 "xf:" + T[k.xb].name};

    struct Built
    {
        std::shared_ptr<ci::UnitProto const> proto;
        UnitModel um;
        Obj bound;
    };
    auto explicit_unit = [&](std::string label, std::string prefix, std::string mat, int leaf, int xf) {
        bool wrapped = false;
        Obj x = bounded(transformed(L[leaf], T[xf]), &wrapped);
        so::Box3 c = x.ora->bbox();
        if (!c.finite())
            c = context_box().ora->bbox();
        Built b;
        b.bound = enclosing_box(prefix + "box", c, 0.2);
        ci::UnitProto::Input inp;
        inp.label = label;
        inp.boundary.interior = b.bound.obj;
        inp.boundary.zorder = ZOrder::media;
        inp.materials.push_back(material(x, 1, prefix + mat));
        Obj rest = rest_of(prefix + "rest", b.bound, {x});
        inp.materials.push_back(material(rest, 8, prefix + "rest"));
        b.um.label = label;
        b.um.boundary = b.bound.ora;
        b.um.materials.push_back({prefix + mat, x.ora});
        b.um.materials.push_back({prefix + "rest", rest.ora});
        b.proto = std::make_shared<ci::UnitProto>(std::move(inp));
        return b;
    };
    Built d1 = explicit_unit("D1", "d1", "A", k.a, k.xa);
    Built d3 = explicit_unit("D3", "d3", "B", k.b, k.xb);

    // D2: implicit sphere around the placed D3, background only besides the daughter
    Xf const p4 = T[2];
    Obj d2bound = enclosing_sphere("d2sph", transformed(d3.bound, p4).ora->bbox(), 0.2);
    UnitModel d2m;
    std::shared_ptr<ci::UnitProto const> d2proto;
    {
        ci::UnitProto::Input inp;
        inp.label = "D2";
        inp.boundary.interior = d2bound.obj;
        inp.boundary.zorder = ZOrder::exterior;
        inp.background.fill = GeoMaterialId{7};
        inp.background.label = Label{"d2bg"};
        ci::UnitProto::DaughterInput di;
        di.fill = d3.proto;
        di.transform = p4.variant();
        di.zorder = ZOrder::media;
        inp.daughters.push_back(di);
        d2m.label = "D2";
        d2m.boundary = d2bound.ora;
        d2m.has_background = true;
        d2m.background_label = "d2bg";
        d2m.daughters.push_back({3, p4.m3(), p4.v3()});
        d2proto = std::make_shared<ci::UnitProto>(std::move(inp));
    }

    Xf p1;
    p1.name = "h1";
    p1.t[0] = 9, p1.t[1] = 0.5, p1.t[2] = -0.4;
    Xf p2 = T[xf_gen];
    p2.name = "h2";
    p2.t[0] = -9, p2.t[1] = 1.0, p2.t[2] = 0.6;
    Xf p3 = T[4];
    p3.name = "h3";
    p3.t[0] = 0.3, p3.t[1] = 11.5, p3.t[2] = 0.2;
    struct Pl
    {
        std::shared_ptr<ci::UnitProto const> proto;
        int unit;
        Obj bound;
        Xf xf;
    };
    std::vector<Pl> pls;
    if (k.op2)
        pls.push_back({d2proto, 2, d2bound, p3});
    pls.push_back({d1.proto, 1, d1.bound, p1});
    pls.push_back({d1.proto, 1, d1.bound, p2});
    if (!k.op2)
        pls.push_back({d2proto, 2, d2bound, p3});

    ci::UnitProto::Input winp;
    winp.label = "world";
    UnitModel wm;
    wm.label = "world";
    so::Box3 world_content = so::Box3::make_empty();
    std::vector<Obj> holes;
    for (auto const& pl : pls)
    {
        Obj placed = transformed(pl.bound, pl.xf);
        world_content = so::box_union(world_content, placed.ora->bbox());
        ci::UnitProto::DaughterInput di;
        di.fill = pl.proto;
        di.transform = pl.xf.variant();
        di.zorder = ZOrder::media;
        winp.daughters.push_back(di);
        wm.daughters.push_back({pl.unit, pl.xf.m3(), pl.xf.v3()});
        Obj dint;
        dint.name = "dint." + pl.xf.name;
        dint.obj = di.make_interior();
        dint.ora = placed.ora;
        holes.push_back(dint);
    }
    Obj wbound = enclosing_box("wbox", world_content, 0.3);
    Obj rest = rest_of("wrest", wbound, holes);
    winp.materials.push_back(material(rest, 9, "wrest"));
    wm.materials.push_back({"wrest", rest.ora});
    winp.boundary.zorder = ZOrder::media;
    winp.boundary.interior = wbound.obj;
    wm.boundary = wbound.ora;
    prog.world = std::make_shared<ci::UnitProto>(std::move(winp));
    prog.units.resize(4);
    prog.units[0] = std::move(wm);
    prog.units[1] = d1.um;
    prog.units[2] = std::move(d2m);
    prog.units[3] = d3.um;

    // one lattice per placed leaf unit: its boundary box (x1.05) carried to the world frame
    auto placed_box = [](Obj const& bound, std::vector<Xf const*> chain) {
        so::Box3 b = bound.ora->bbox();
        so::Box3 c = so::Box3::make_empty();
        for (int corner = 0; corner < 8; ++corner)
        {
            so::V3 q{((corner & 1) ? b.hi[0] : b.lo[0]) * 1.05L,
                     ((corner & 2) ? b.hi[1] : b.lo[1]) * 1.05L,
                     ((corner & 4) ? b.hi[2] : b.lo[2]) * 1.05L};
            for (Xf const* x : chain)
                q = so::to_parent(x->m3(), x->v3(), q);
            c.grow(q);
        }
        return c;
    };
    prog.content = placed_box(d1.bound, {&p1});
    prog.more_content.push_back(placed_box(d1.bound, {&p2}));
    prog.more_content.push_back(placed_box(d3.bound, {&p4, &p3}));
    so::Box3 wb = wbound.ora->bbox();
    prog.probe = wb;
    prog.scale = 0;
    for (int i = 0; i < 3; ++i)
    {
        prog.probe.lo[i] = wb.lo[i] * 1.08L;
        prog.probe.hi[i] = wb.hi[i] * 1.08L;
        prog.scale = std::max(prog.scale, double(std::max(std::fabs(wb.lo[i]), std::fabs(wb.hi[i]))));
    }
    return prog;
}

//! UnitProto -> InputBuilder (the program's tolerance; default: Tolerance::from_default()): the
//! OrangeInput that OrangeParams consumes
inline celeritas::OrangeInput build_input(Program const& p)
{
    ci::InputBuilder::Options opts;
    opts.tol = tolerance_of(p.tol);
    ci::InputBuilder build(std::move(opts));
    return build(*p.world);
}

//---------------------------------------------------------------------------//
}  // namespace sprog
}  // namespace vf
