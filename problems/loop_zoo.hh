// Problem zoo for the stepping-loop checks (C01, C02, C05, C06, C07, C16, C17): complete
// CoreParams built by hand (the way SimpleTestBase/MockTestBase do, without Geant4 data):
//   * geometry from the orangeinp zoo (problems/geo_zoo.hh),
//   * particles gamma / e- / e+, materials "mat" (Al-like) and a hard vacuum,
//   * P_script physics: a user Process/Model pair (public API) whose interaction outcome is
//     chosen by the explorer through a thread-local chooser, wrapped in the real
//     InteractionApplier; optional constant dE/dx with the exactly consistent linear range,
//   * a recorder StepInterface that stores every delivered step (StepSelection::all()).
//
// Energy bookkeeping convention used by all oracles ("available energy"):
//     avail(track) = kinetic energy + 2 m_e c^2 [if the track is a positron]
// Every scripted outcome conserves avail by construction:
//     avail(incident before) = avail(incident after | 0 if absorbed) + sum avail(secondaries)
//                              + local deposit
// so any imbalance observed in the step stream is the loop's doing.
#pragma once

#include <cmath>
#include <cstring>
#include <functional>
#include <map>
#include <memory>
#include <stdexcept>
#include <string>
#include <vector>

#include "corecel/io/OutputRegistry.hh"
#include "corecel/sys/ActionRegistry.hh"
#include "corecel/data/AuxParamsRegistry.hh"
#include "celeritas/Quantities.hh"
#include "celeritas/Units.hh"
#include "celeritas/em/params/UrbanMscParams.hh"
#include "celeritas/field/UniformFieldData.hh"
#include "celeritas/geo/GeoMaterialParams.hh"
#include "celeritas/geo/GeoParams.hh"
#include "celeritas/global/ActionInterface.hh"
#include "celeritas/global/ActionLauncher.hh"
#include "celeritas/global/CoreParams.hh"
#include "celeritas/global/CoreState.hh"
#include "celeritas/global/CoreTrackView.hh"
#include "celeritas/global/Stepper.hh"
#include "celeritas/global/TrackExecutor.hh"
#include "celeritas/global/alongstep/AlongStepGeneralLinearAction.hh"
#include "celeritas/global/alongstep/AlongStepNeutralAction.hh"
#include "celeritas/global/alongstep/AlongStepUniformMscAction.hh"
#include "celeritas/grid/ValueGridBuilder.hh"
#include "celeritas/io/ImportModel.hh"
#include "celeritas/io/ImportPhysicsTable.hh"
#include "celeritas/grid/ValueGridType.hh"
#include "celeritas/mat/MaterialParams.hh"
#include "celeritas/phys/CutoffParams.hh"
#include "celeritas/phys/Interaction.hh"
#include "celeritas/phys/InteractionApplier.hh"
#include "celeritas/phys/Model.hh"
#include "celeritas/phys/PDGNumber.hh"
#include "celeritas/phys/ParticleParams.hh"
#include "celeritas/phys/PhysicsParams.hh"
#include "celeritas/phys/Primary.hh"
#include "celeritas/phys/Process.hh"
#include "celeritas/random/RngParams.hh"
#include "celeritas/track/SimParams.hh"
#include "celeritas/track/StatusChecker.hh"
#include "celeritas/track/TrackInitParams.hh"
#include "celeritas/user/ActionDiagnostic.hh"
#include "celeritas/user/DetectorSteps.hh"
#include "celeritas/user/SimpleCalo.hh"
#include "celeritas/user/StepCollector.hh"
#include "celeritas/user/StepDiagnostic.hh"
#include "celeritas/user/StepInterface.hh"
#include "problems/geo_zoo.hh"

namespace vf
{
using namespace celeritas;

constexpr double electron_mass_mev = 0.5109989461;

//---------------------------------------------------------------------------//
// Chooser: the explorer's seam inside the scripted model
//---------------------------------------------------------------------------//
struct InteractionQuery
{
    int particle;  // 0 gamma 1 e- 2 e+
    double energy;  // kinetic, MeV (0 = at rest)
    unsigned event, track, step;  // who asks
    unsigned slot;
};
struct LoopChooser
{
    virtual ~LoopChooser() = default;
    //! pick one of n outcomes (0 = default)
    virtual int choose(int n, InteractionQuery const& q) = 0;
    //! told by the scripted interactor whether the secondary allocation of the outcome just
    //! chosen failed (Interaction::from_failure was returned)
    virtual void allocation_result(bool /*failed*/) {}
};
inline thread_local LoopChooser* g_loop_chooser = nullptr;

//! Outcome kinds of the scripted interaction
enum class Outcome
{
    absorb,  // absorbed, everything deposited                       (default)
    scatter_half,  // keeps E/2, deposits E/2, direction changed
    scatter_plus_one,  // keeps E/2, e- secondary E/4, deposits E/4
    absorb_two,  // absorbed; gamma E/2 + e- E/4, rest deposited
    absorb_pair,  // absorbed; e- and e+ with (avail-2m)/4 each, rest deposited
    absorb_subcut,  // absorbed; one e- below the production cut (+ one above if room)
    unchanged,  // no change
    scatter_three,  // keeps E/4, three secondaries E/8 each (gamma, e-, gamma), rest deposited
    annihilate,  // (e+ only) absorbed; two gammas sharing avail
    absorb_in_flight,  // like absorb but only offered to a moving particle
    absorb_subcut_positron,  // absorbed; one e+ below its production cut + a gamma
    size_
};
inline char const* to_cstring(Outcome o)
{
    static char const* const n[] = {"absorb", "scatter_half", "scatter_plus_one", "absorb_two",
                                    "absorb_pair", "absorb_subcut", "unchanged", "scatter_three",
                                    "annihilate", "absorb_in_flight", "absorb_subcut_positron"};
    return n[int(o)];
}

struct ScriptedShared
{
    ParticleId gamma, electron, positron;
    ParticleId proton;  // optional 4th particle (LoopConfig::with_proton)
    double subcut_energy{0.01};  // < electron production cut in "mat"
    // which outcomes are offered (menu order = choice index), per incident particle
    std::vector<Outcome> menu;
    // count of interactions executed (diagnostic)
    mutable unsigned long long calls{0};
    // Bookkeeping mode (C02): energies are not tracked; the menu is the fixed 8-letter
    // alphabet of bk_outcomes() and every secondary/parent keeps `bk_energy`
    bool bookkeeping{false};
    double bk_energy{1.0};
    // Extended bookkeeping alphabet (bk_outcomes_ext(): the 8 letters + die+e-, survive+gamma,
    // unchanged); off by default so that existing users keep the 8-letter menu
    bool bk_extended{false};
};

//! Bookkeeping alphabet: {parent survives?, secondaries (0 gamma,1 e-), of which sub-cut}
struct BkOutcome
{
    bool survive;
    int nsec;
    int kinds[2];  // 0 gamma, 1 electron
    bool subcut[2];
    bool unchanged;  // Interaction::from_unchanged(): the secondaries span is NOT rewritten
    int surviving_secondaries() const { return nsec - int(subcut[0]) - int(nsec > 1 && subcut[1]); }
};
inline BkOutcome const* bk_outcomes()
{
    static BkOutcome const t[8] = {
        {false, 0, {0, 0}, {false, false}},  // die+0
        {true, 0, {0, 0}, {false, false}},  // survive+0
        {true, 1, {1, 0}, {false, false}},  // survive + e-
        {false, 1, {0, 0}, {false, false}},  // die + gamma
        {false, 2, {0, 1}, {false, false}},  // die + gamma + e-
        {true, 2, {1, 0}, {false, false}},  // survive + e- + gamma
        {false, 1, {1, 0}, {true, false}},  // die + sub-cut e-      (nothing survives)
        {false, 2, {1, 0}, {true, false}},  // die + sub-cut e- + gamma
    };
    return t;
}
inline constexpr int bk_num_outcomes = 8;
//! Extended alphabet: letters 0-7 are bk_outcomes(); 8 die + e- (charged secondary initialised
//! in place), 9 survive + gamma, 10 "unchanged" (returned before any allocation: the track
//! survives, emits nothing and its PhysicsStepView::secondaries span is left as it was)
inline BkOutcome const* bk_outcomes_ext()
{
    static BkOutcome const t[11] = {
        {false, 0, {0, 0}, {false, false}, false},  // die+0
        {true, 0, {0, 0}, {false, false}, false},  // survive+0
        {true, 1, {1, 0}, {false, false}, false},  // survive + e-
        {false, 1, {0, 0}, {false, false}, false},  // die + gamma
        {false, 2, {0, 1}, {false, false}, false},  // die + gamma + e-
        {true, 2, {1, 0}, {false, false}, false},  // survive + e- + gamma
        {false, 1, {1, 0}, {true, false}, false},  // die + sub-cut e-      (nothing survives)
        {false, 2, {1, 0}, {true, false}, false},  // die + sub-cut e- + gamma
        {false, 1, {1, 0}, {false, false}, false},  // die + e-
        {true, 1, {0, 0}, {false, false}, false},  // survive + gamma
        {true, 0, {0, 0}, {false, false}, true},  // unchanged
    };
    return t;
}
inline constexpr int bk_num_outcomes_ext = 11;

inline int particle_kind(ScriptedShared const& s, ParticleId p)
{
    return p == s.gamma ? 0 : p == s.electron ? 1 : (p == s.positron || !s.proton) ? 2 : 3;
}

//! Feasible outcomes for (particle, energy), in menu order
inline std::vector<Outcome> feasible_outcomes(ScriptedShared const& s, int kind, double e)
{
    std::vector<Outcome> r;
    double const avail = e + (kind == 2 ? 2 * electron_mass_mev : 0);
    for (Outcome o : s.menu)
    {
        switch (o)
        {
            case Outcome::absorb: r.push_back(o); break;
            case Outcome::absorb_in_flight:
                if (e > 0)
                    r.push_back(o);
                break;
            case Outcome::unchanged:
                if (e > 0)
                    r.push_back(o);
                break;
            case Outcome::scatter_half:
            case Outcome::scatter_plus_one:
            case Outcome::scatter_three:
                if (e > 0)
                    r.push_back(o);
                break;
            case Outcome::absorb_two:
                if (avail > 0)
                    r.push_back(o);
                break;
            case Outcome::absorb_pair:
                if (avail > 2 * electron_mass_mev * 1.5)
                    r.push_back(o);
                break;
            case Outcome::absorb_subcut:
                if (avail > 4 * s.subcut_energy)
                    r.push_back(o);
                break;
            case Outcome::annihilate:
                if (kind == 2)
                    r.push_back(o);
                break;
            case Outcome::absorb_subcut_positron:
                if (avail > 2 * (s.subcut_energy + 2 * electron_mass_mev) * 1.01)
                    r.push_back(o);
                break;
            default: break;
        }
    }
    if (r.empty())
        r.push_back(Outcome::absorb);
    return r;
}

//! Deterministic new direction (never parallel to the old one, unit)
inline Real3 deflect(Real3 const& d, int variant)
{
    Real3 axis = (std::fabs(d[2]) < 0.9) ? Real3{0, 0, 1} : Real3{1, 0, 0};
    // perpendicular component
    Real3 p = {d[1] * axis[2] - d[2] * axis[1], d[2] * axis[0] - d[0] * axis[2],
               d[0] * axis[1] - d[1] * axis[0]};
    double n = std::sqrt(p[0] * p[0] + p[1] * p[1] + p[2] * p[2]);
    double c = (variant & 1) ? -0.5 : 0.5, s = std::sqrt(1 - c * c);
    if (variant & 2)
        s = -s;
    Real3 r = {c * d[0] + s * p[0] / n, c * d[1] + s * p[1] / n, c * d[2] + s * p[2] / n};
    double m = std::sqrt(r[0] * r[0] + r[1] * r[1] + r[2] * r[2]);
    return {r[0] / m, r[1] / m, r[2] / m};
}

struct ScriptedExecutor
{
    ScriptedShared const* shared;

    Interaction operator()(CoreTrackView const& track)
    {
        ScriptedShared const& s = *shared;
        auto particle = track.make_particle_view();
        auto sim = track.make_sim_view();
        int kind = particle_kind(s, particle.particle_id());
        double const e = particle.energy().value();
        double const avail = e + (kind == 2 ? 2 * electron_mass_mev : 0);
        Real3 const dir = track.make_geo_view().dir();
        if (s.bookkeeping)
        {
            int pick = 0;
            if (g_loop_chooser)
            {
                InteractionQuery q{kind, e, unsigned(sim.event_id().unchecked_get()),
                                   unsigned(sim.track_id().unchecked_get()),
                                   unsigned(sim.num_steps()),
                                   unsigned(track.track_slot_id().unchecked_get())};
                pick = g_loop_chooser->choose(s.bk_extended ? bk_num_outcomes_ext : bk_num_outcomes,
                                              q);
            }
            BkOutcome const& o = s.bk_extended ? bk_outcomes_ext()[pick] : bk_outcomes()[pick];
            if (o.unchanged)
                return Interaction::from_unchanged();
            auto allocate = track.make_physics_step_view().make_secondary_allocator();
            Interaction r;
            Secondary* sec = nullptr;
            if (o.nsec > 0)
            {
                sec = allocate(o.nsec);
                if (!sec)
                    return Interaction::from_failure();
                for (int i = 0; i < o.nsec; ++i)
                {
                    sec[i].particle_id = o.kinds[i] ? s.electron : s.gamma;
                    sec[i].energy = units::MevEnergy{o.subcut[i] ? s.subcut_energy : s.bk_energy};
                    sec[i].direction = deflect(dir, i);
                }
            }
            if (o.survive)
            {
                r.action = Interaction::Action::scattered;
                r.energy = units::MevEnergy{s.bk_energy};
                r.direction = deflect(dir, 3);
            }
            else
            {
                r = Interaction::from_absorption();
            }
            r.secondaries = {sec, size_type(o.nsec)};
            return r;
        }
        auto menu = feasible_outcomes(s, kind, e);
        int pick = 0;
        if (g_loop_chooser)
        {
            InteractionQuery q{kind, e, unsigned(sim.event_id().unchecked_get()),
                               unsigned(sim.track_id().unchecked_get()),
                               unsigned(sim.num_steps()),
                               unsigned(track.track_slot_id().unchecked_get())};
            pick = g_loop_chooser->choose(int(menu.size()), q);
        }
        Outcome o = menu.at(pick);
        auto allocate = track.make_physics_step_view().make_secondary_allocator();
        using E = units::MevEnergy;
        Interaction r;
        auto fail = [] {
            if (g_loop_chooser)
                g_loop_chooser->allocation_result(true);
            return Interaction::from_failure();
        };
        if (g_loop_chooser)
            g_loop_chooser->allocation_result(false);  // overwritten by fail() below
        switch (o)
        {
            case Outcome::absorb_in_flight:
            case Outcome::absorb: {
                r = Interaction::from_absorption();
                r.energy_deposition = E{avail};
                return r;
            }
            case Outcome::unchanged: return Interaction::from_unchanged();
            case Outcome::scatter_half: {
                r.action = Interaction::Action::scattered;
                r.energy = E{e / 2};
                r.direction = deflect(dir, 0);
                r.energy_deposition = E{e / 2};
                return r;
            }
            case Outcome::scatter_plus_one: {
                Secondary* sec = allocate(1);
                if (!sec)
                    return fail();
                sec[0].particle_id = s.electron;
                sec[0].energy = E{e / 4};
                sec[0].direction = deflect(dir, 1);
                r.action = Interaction::Action::scattered;
                r.energy = E{e / 2};
                r.direction = deflect(dir, 2);
                r.energy_deposition = E{e / 4};
                r.secondaries = {sec, 1};
                return r;
            }
            case Outcome::scatter_three: {
                Secondary* sec = allocate(3);
                if (!sec)
                    return fail();
                ParticleId ids[3] = {s.gamma, s.electron, s.gamma};
                for (int i = 0; i < 3; ++i)
                {
                    sec[i].particle_id = ids[i];
                    sec[i].energy = E{e / 8};
                    sec[i].direction = deflect(dir, i);
                }
                r.action = Interaction::Action::scattered;
                r.energy = E{e / 4};
                r.direction = deflect(dir, 3);
                r.energy_deposition = E{e - e / 4 - 3 * (e / 8)};
                r.secondaries = {sec, 3};
                return r;
            }
            case Outcome::absorb_two: {
                Secondary* sec = allocate(2);
                if (!sec)
                    return fail();
                sec[0].particle_id = s.gamma;
                sec[0].energy = E{avail / 2};
                sec[0].direction = deflect(dir, 0);
                sec[1].particle_id = s.electron;
                sec[1].energy = E{avail / 4};
                sec[1].direction = deflect(dir, 3);
                r = Interaction::from_absorption();
                r.energy_deposition = E{avail - avail / 2 - avail / 4};
                r.secondaries = {sec, 2};
                return r;
            }
            case Outcome::absorb_pair: {
                Secondary* sec = allocate(2);
                if (!sec)
                    return fail();
                double ke = (avail - 2 * electron_mass_mev) / 4;
                sec[0].particle_id = s.electron;
                sec[0].energy = E{ke};
                sec[0].direction = deflect(dir, 1);
                sec[1].particle_id = s.positron;
                sec[1].energy = E{ke};
                sec[1].direction = deflect(dir, 2);
                r = Interaction::from_absorption();
                r.energy_deposition = E{avail - 2 * ke - 2 * electron_mass_mev};
                r.secondaries = {sec, 2};
                return r;
            }
            case Outcome::absorb_subcut: {
                Secondary* sec = allocate(2);
                if (!sec)
                    return fail();
                sec[0].particle_id = s.electron;
                sec[0].energy = E{s.subcut_energy};
                sec[0].direction = deflect(dir, 0);
                sec[1].particle_id = s.gamma;
                sec[1].energy = E{avail / 2};
                sec[1].direction = deflect(dir, 1);
                r = Interaction::from_absorption();
                r.energy_deposition = E{avail - s.subcut_energy - avail / 2};
                r.secondaries = {sec, 2};
                return r;
            }
            case Outcome::absorb_subcut_positron: {
                Secondary* sec = allocate(2);
                if (!sec)
                    return fail();
                sec[0].particle_id = s.positron;
                sec[0].energy = E{s.subcut_energy};
                sec[0].direction = deflect(dir, 2);
                sec[1].particle_id = s.gamma;
                sec[1].energy = E{avail / 2};
                sec[1].direction = deflect(dir, 1);
                r = Interaction::from_absorption();
                r.energy_deposition
                    = E{avail - avail / 2 - s.subcut_energy - 2 * electron_mass_mev};
                r.secondaries = {sec, 2};
                return r;
            }
            case Outcome::annihilate: {
                Secondary* sec = allocate(2);
                if (!sec)
                    return fail();
                for (int i = 0; i < 2; ++i)
                {
                    sec[i].particle_id = s.gamma;
                    sec[i].energy = E{avail / 2};
                    sec[i].direction = i ? Real3{-dir[0], -dir[1], -dir[2]} : dir;
                }
                r = Interaction::from_absorption();
                r.energy_deposition = E{avail - 2 * (avail / 2)};
                r.secondaries = {sec, 2};
                return r;
            }
            default: break;
        }
        return Interaction::from_unchanged();
    }
};

//---------------------------------------------------------------------------//
// Scripted Model / Process (public user API)
//---------------------------------------------------------------------------//
class ScriptedModel final : public Model, public ConcreteAction
{
  public:
    ScriptedModel(ActionId id, std::string label, Applicability applic,
                  std::shared_ptr<ScriptedShared const> shared)
        : ConcreteAction(id, label, "scripted interaction chosen by the explorer")
        , applic_(applic)
        , shared_(std::move(shared))
    {
    }
    SetApplicability applicability() const final { return {applic_}; }
    MicroXsBuilders micro_xs(Applicability) const final { return {}; }
    void step(CoreParams const& params, CoreStateHost& state) const final
    {
        auto execute = make_action_track_executor(
            params.ptr<MemSpace::native>(), state.ptr(), this->action_id(),
            InteractionApplier{ScriptedExecutor{shared_.get()}});
        return launch_action(*this, params, state, execute);
    }
    void step(CoreParams const&, CoreStateDevice&) const final { CELER_NOT_CONFIGURED("device"); }

  private:
    Applicability applic_;
    std::shared_ptr<ScriptedShared const> shared_;
};

struct ScriptedProcessInput
{
    std::string label;
    ParticleId particle;
    double emin{1e-3}, emax{1e4};  // MeV
    double xs_mat{1.0};  // macroscopic cross section in "mat" [1/cm]
    bool xs_starts_at_zero{true};  // first knot 0 => not an at-rest process
    bool at_rest{false};  // applicability down to E=0, xs>0 at first knot
    bool lower_zero{false};  // model applicable down to E=0 (xs is extrapolated below emin)
    double dedx_mat{0};  // constant stopping power in "mat" [MeV/cm]; 0 = none
    bool integral{false};
    MaterialId mat, vacuum;
    std::shared_ptr<ScriptedShared const> shared;
};

class ScriptedProcess final : public Process
{
  public:
    explicit ScriptedProcess(ScriptedProcessInput in) : in_(std::move(in)) {}
    VecModel build_models(ActionIdIter start_id) const final
    {
        Applicability a;
        a.particle = in_.particle;
        a.lower = units::MevEnergy{(in_.at_rest || in_.lower_zero) ? 0.0 : in_.emin};
        a.upper = units::MevEnergy{in_.emax};
        return {std::make_shared<ScriptedModel>(*start_id, in_.label + "-model", a, in_.shared)};
    }
    StepLimitBuilders step_limits(Applicability applic) const final
    {
        using VecDbl = std::vector<double>;
        StepLimitBuilders b;
        bool in_mat = (applic.material == in_.mat);
        // inverse length in native units (CGS: 1/cm)
        double const xs = (in_mat ? in_.xs_mat : 1e-12 * in_.xs_mat) / units::centimeter;
        if (in_.xs_mat > 0)
        {
            VecDbl grid = in_.xs_starts_at_zero ? VecDbl{0, xs, xs, xs, xs, xs, xs, xs}
                                                : VecDbl{xs, xs, xs, xs, xs, xs, xs, xs};
            b[ValueGridType::macro_xs]
                = std::make_unique<ValueGridLogBuilder>(in_.emin, in_.emax, grid);
        }
        if (in_.dedx_mat > 0)
        {
            // MeV per native length
            double const l = (in_mat ? in_.dedx_mat : 1e-9 * in_.dedx_mat) / units::centimeter;
            b[ValueGridType::energy_loss]
                = std::make_unique<ValueGridLogBuilder>(in_.emin, in_.emax, VecDbl{l, l});
            b[ValueGridType::range] = std::make_unique<ValueGridLogBuilder>(
                in_.emin, in_.emax, VecDbl{in_.emin / l, in_.emax / l});
        }
        return b;
    }
    bool use_integral_xs() const final { return in_.integral; }
    std::string_view label() const final { return in_.label; }

  private:
    ScriptedProcessInput in_;
};

//---------------------------------------------------------------------------//
// Recorder: every delivered step, all fields
//---------------------------------------------------------------------------//
struct StepRec
{
    unsigned event, track, parent, step_count, slot;
    int particle, action;
    double step_length, edep;
    struct Pt
    {
        double time, energy;
        std::array<double, 3> pos, dir;
        int volume;
    } pre, post;
    int stream;
    unsigned call;  // Stepper call index (stamped from the shared ProbeLog if present)
    int detector;  // -1 if no detector map
};
inline constexpr unsigned no_id = 0xffffffffu;
struct ProbeLog;

class Recorder final : public StepInterface
{
  public:
    Filters filters() const final { return filters_; }
    StepSelection selection() const final { return selection_; }
    void process_steps(HostStepState st) final
    {
        auto const& d = st.steps.data;
        if (track_presence)
            note_presence(d);
        if (run_copy_steps && !d.detector.empty())
            check_copy_steps(st);
        std::vector<StepRec>& steps
            = (split_streams && st.stream_id.unchecked_get() > 0)
                  ? per_stream.at(st.stream_id.unchecked_get() - 1)
                  : this->steps;
        for (TrackSlotId::size_type i = 0; i < d.size(); ++i)
        {
            TrackSlotId ts{i};
            if (!d.track_id[ts])
            {
                // documented in StepData.hh: "The detector ID for inactive threads is always
                // false" - consumers such as copy_steps()/SimpleCalo select slots by it alone
                if (!d.detector.empty() && d.detector[ts])
                {
                    ++stale_detector_slots;
                    if (stale_detector_first.empty())
                        stale_detector_first = "slot " + std::to_string(i) + " detector "
                                               + std::to_string(d.detector[ts].unchecked_get());
                }
                continue;
            }
            // with a detector map the consumer must ignore slots without a detector
            if (!d.detector.empty() && !d.detector[ts])
                continue;
            StepRec r{};
            r.detector = d.detector.empty() ? -1 : int(d.detector[ts].unchecked_get());
            r.call = call_stamp ? *call_stamp : 0;
            r.slot = i;
            r.stream = st.stream_id.unchecked_get();
            r.track = d.track_id[ts].unchecked_get();
            r.event = d.event_id.empty() ? no_id : d.event_id[ts].unchecked_get();
            r.parent = d.parent_id.empty() || !d.parent_id[ts] ? no_id
                                                               : d.parent_id[ts].unchecked_get();
            r.step_count = d.track_step_count.empty() ? 0 : d.track_step_count[ts];
            r.particle = d.particle.empty() ? -1 : int(d.particle[ts].unchecked_get());
            r.action = d.action_id.empty() ? -1 : int(d.action_id[ts].unchecked_get());
            r.step_length = d.step_length.empty() ? 0 : d.step_length[ts];
            r.edep = d.energy_deposition.empty() ? 0 : d.energy_deposition[ts].value();
            for (auto sp : range(StepPoint::size_))
            {
                auto const& p = d.points[sp];
                StepRec::Pt& q = sp == StepPoint::pre ? r.pre : r.post;
                q.time = p.time.empty() ? 0 : p.time[ts];
                q.energy = p.energy.empty() ? 0 : p.energy[ts].value();
                if (!p.pos.empty())
                    q.pos = {p.pos[ts][0], p.pos[ts][1], p.pos[ts][2]};
                if (!p.dir.empty())
                    q.dir = {p.dir[ts][0], p.dir[ts][1], p.dir[ts][2]};
                q.volume = p.volume_id.empty() || !p.volume_id[ts]
                               ? -1
                               : int(p.volume_id[ts].unchecked_get());
            }
            steps.push_back(r);
        }
        if (tee)
            tee->process_steps(st);
    }
    void process_steps(DeviceStepState) final {}

    //! (C17) which collections were non-empty in this call: bit k = flag k in the order
    //! event_id, parent_id, track_step_count, action_id, step_length, particle,
    //! energy_deposition, pre.{time,pos,dir,volume_id,energy}, post.{time,pos,dir,volume_id,energy}
    template<class D>
    void note_presence(D const& d)
    {
        uint32_t m = 0;
        int k = 0;
        auto bit = [&](bool nonempty) { m |= uint32_t(nonempty) << k++; };
        bit(!d.event_id.empty());
        bit(!d.parent_id.empty());
        bit(!d.track_step_count.empty());
        bit(!d.action_id.empty());
        bit(!d.step_length.empty());
        bit(!d.particle.empty());
        bit(!d.energy_deposition.empty());
        for (auto sp : range(StepPoint::size_))
        {
            auto const& p = d.points[sp];
            bit(!p.time.empty());
            bit(!p.pos.empty());
            bit(!p.dir.empty());
            bit(!p.volume_id.empty());
            bit(!p.energy.empty());
        }
        present_or |= m;
        present_and &= m;
    }

    //! (C17) run the real copy_steps() (DetectorSteps.cc) into a REUSED output object and
    //! compare it element by element with the raw slots that carry a valid detector id
    void check_copy_steps(HostStepState st)
    {
        auto const& d = st.steps.data;
        copy_steps(&copy_out, st.steps);
        ++copy_steps_calls;
        std::string bad;
        auto fail = [&](char const* what, size_t k, unsigned slot) {
            if (bad.empty())
                bad = std::string(what) + " at output element " + std::to_string(k) + " (slot "
                      + std::to_string(slot) + ")";
        };
        size_t nvalid = 0;
        for (TrackSlotId::size_type i = 0; i < d.size(); ++i)
            nvalid += bool(d.detector[TrackSlotId{i}]);
        auto same = [](auto const& a, auto const& b) {
            static_assert(sizeof(a) == sizeof(b), "same type");
            return std::memcmp(&a, &b, sizeof(a)) == 0;
        };
        // each output vector: empty iff the source collection is empty, else one element per
        // valid slot in slot order
        auto field = [&](auto const& out, auto const& src, char const* what) {
            if (src.empty())
            {
                if (!out.empty())
                    fail((std::string(what) + ": not gathered but output not empty").c_str(), 0, 0);
                return;
            }
            if (out.size() != nvalid)
            {
                fail((std::string(what) + ": output size " + std::to_string(out.size()) + " != "
                      + std::to_string(nvalid) + " slots with a detector")
                         .c_str(),
                     0, 0);
                return;
            }
            size_t k = 0;
            for (TrackSlotId::size_type i = 0; i < d.size(); ++i)
            {
                TrackSlotId ts{i};
                if (!d.detector[ts])
                    continue;
                if (!same(out[k], src[ts]))
                    fail(what, k, i);
                ++k;
            }
        };
        field(copy_out.detector, d.detector, "detector");
        field(copy_out.track_id, d.track_id, "track_id");
        for (auto sp : range(StepPoint::size_))
        {
            bool pre = sp == StepPoint::pre;
            field(copy_out.points[sp].time, d.points[sp].time, pre ? "pre.time" : "post.time");
            field(copy_out.points[sp].pos, d.points[sp].pos, pre ? "pre.pos" : "post.pos");
            field(copy_out.points[sp].dir, d.points[sp].dir, pre ? "pre.dir" : "post.dir");
            field(copy_out.points[sp].energy, d.points[sp].energy, pre ? "pre.energy" : "post.energy");
        }
        field(copy_out.event_id, d.event_id, "event_id");
        field(copy_out.parent_id, d.parent_id, "parent_id");
        field(copy_out.track_step_count, d.track_step_count, "track_step_count");
        field(copy_out.step_length, d.step_length, "step_length");
        field(copy_out.particle, d.particle, "particle");
        field(copy_out.energy_deposition, d.energy_deposition, "energy_deposition");
        if (copy_out.size() != nvalid || bool(copy_out) != (nvalid > 0))
            fail("size()/operator bool", 0, 0);
        copy_steps_elements += nvalid;
        if (!bad.empty())
        {
            ++copy_steps_errors;
            if (copy_steps_first.empty())
                copy_steps_first = bad;
        }
    }

    // (C17) optional self-checks, off by default
    bool track_presence{false};
    uint32_t present_or{0}, present_and{~uint32_t(0)};
    bool run_copy_steps{false};
    DetectorStepOutput copy_out;  // reused across calls on purpose (stale contents / resize)
    uint64_t copy_steps_calls{0}, copy_steps_elements{0}, copy_steps_errors{0};
    std::string copy_steps_first;

    Filters filters_;
    StepSelection selection_{StepSelection::all()};
    std::vector<StepRec> steps;
    // optional second consumer of the SAME step state (StepCollector refuses to mix callbacks
    // with and without detectors): called after the records of this call were stored
    std::shared_ptr<StepInterface> tee;
    uint64_t stale_detector_slots{0};  // vacant slots that still carry a detector id
    std::string stale_detector_first;
    unsigned const* call_stamp{nullptr};
    // concurrent streams (C07): records of stream s > 0 go to per_stream[s-1] (pre-sized,
    // so that threads never touch shared containers)
    bool split_streams{false};
    std::vector<std::vector<StepRec>> per_stream;
    std::vector<StepRec>& stream_steps(unsigned s) { return s == 0 ? steps : per_stream.at(s - 1); }
};

//---------------------------------------------------------------------------//
// Probe: an independent user action that snapshots every slot at a given step order
//---------------------------------------------------------------------------//
struct ProbeSnap
{
    int order;  // StepActionOrder as int
    unsigned call;  // index of the Stepper call (set by the harness through probe_call)
    unsigned slot;
    int status;  // TrackStatus as int
    unsigned event, track, parent, num_steps;
    int particle;
    double energy, time, step_length, edep;
    int post_action, along_action;
    std::array<double, 3> pos, dir;
    int volume;
    bool outside, on_boundary;
};

struct ProbeLog
{
    std::vector<ProbeSnap> snaps;
    unsigned call{0};
};

class ProbeAction final : public CoreStepActionInterface, public ConcreteAction
{
  public:
    ProbeAction(ActionId id, StepActionOrder order, std::shared_ptr<ProbeLog> log)
        : ConcreteAction(id, "verif-probe-" + std::to_string(int(order)), "verif state probe")
        , order_(order)
        , log_(std::move(log))
    {
    }
    StepActionOrder order() const final { return order_; }
    void step(CoreParams const& params, CoreStateHost& state) const final
    {
        auto const& pr = params.ref<MemSpace::host>();
        auto const& sr = state.ref();
        for (TrackSlotId::size_type i = 0; i < state.size(); ++i)
        {
            TrackSlotId ts{i};
            ProbeSnap s{};
            s.order = int(order_);
            s.call = log_->call;
            s.slot = i;
            s.status = int(sr.sim.status[ts]);
            if (sr.sim.status[ts] == TrackStatus::inactive)
            {
                log_->snaps.push_back(s);
                continue;
            }
            CoreTrackView track(pr, sr, ts);
            auto sim = track.make_sim_view();
            auto par = track.make_particle_view();
            auto geo = track.make_geo_view();
            s.event = sim.event_id().unchecked_get();
            s.track = sim.track_id().unchecked_get();
            s.parent = sim.parent_id() ? sim.parent_id().unchecked_get() : no_id;
            s.num_steps = sim.num_steps();
            s.particle = int(par.particle_id().unchecked_get());
            s.energy = par.energy().value();
            s.time = sim.time();
            s.step_length = sim.step_length();
            s.post_action = sim.post_step_action() ? int(sim.post_step_action().unchecked_get()) : -1;
            s.along_action = sim.along_step_action() ? int(sim.along_step_action().unchecked_get()) : -1;
            s.edep = track.make_physics_step_view().energy_deposition().value();
            s.pos = {geo.pos()[0], geo.pos()[1], geo.pos()[2]};
            s.dir = {geo.dir()[0], geo.dir()[1], geo.dir()[2]};
            s.outside = geo.is_outside();
            s.on_boundary = geo.is_on_boundary();
            s.volume = s.outside ? -1 : int(geo.volume_id().unchecked_get());
            log_->snaps.push_back(s);
        }
    }
    void step(CoreParams const&, CoreStateDevice&) const final { CELER_NOT_CONFIGURED("device"); }

  private:
    StepActionOrder order_;
    std::shared_ptr<ProbeLog> log_;
};

//---------------------------------------------------------------------------//
// Thrower: a user action that aborts the step with an exception when armed (C06: "aborted
// event").  Disarmed it does nothing.  `countdown` counts invocations of the armed order.
//---------------------------------------------------------------------------//
struct ThrowCtl
{
    int armed_order{-1};  // StepActionOrder as int; -1 = disarmed
    unsigned countdown{0};  // throws at the countdown-th invocation of the armed action
    unsigned long long fired{0};
};

class ThrowAction final : public CoreStepActionInterface, public ConcreteAction
{
  public:
    ThrowAction(ActionId id, StepActionOrder order, std::shared_ptr<ThrowCtl> ctl)
        : ConcreteAction(id, "verif-thrower-" + std::to_string(int(order)), "verif user action that may throw")
        , order_(order)
        , ctl_(std::move(ctl))
    {
    }
    StepActionOrder order() const final { return order_; }
    void step(CoreParams const&, CoreStateHost&) const final
    {
        if (ctl_->armed_order == int(order_) && ctl_->countdown > 0 && --ctl_->countdown == 0)
        {
            ctl_->armed_order = -1;
            ++ctl_->fired;
            throw std::runtime_error("verif: user action aborts the event");
        }
    }
    void step(CoreParams const&, CoreStateDevice&) const final { CELER_NOT_CONFIGURED("device"); }

  private:
    StepActionOrder order_;
    std::shared_ptr<ThrowCtl> ctl_;
};

//---------------------------------------------------------------------------//
// Problem definition
//---------------------------------------------------------------------------//
enum class AlongStep
{
    neutral,  // AlongStepNeutralAction (no eloss; only valid without charged eloss tables)
    linear,  // AlongStepGeneralLinearAction, mean eloss
    linear_fluct,  // + energy loss fluctuations
    field,  // AlongStepUniformMscAction with a uniform field, no msc
    field_fluct,
    linear_msc,  // general linear + Urban MSC (synthetic transport cross section)
    linear_msc_fluct,
    field_msc,  // uniform field + Urban MSC
    field_msc_fluct,
};
inline bool has_msc(AlongStep a)
{
    return a == AlongStep::linear_msc || a == AlongStep::linear_msc_fluct
           || a == AlongStep::field_msc || a == AlongStep::field_msc_fluct;
}
inline bool has_fluct(AlongStep a)
{
    return a == AlongStep::linear_fluct || a == AlongStep::field_fluct
           || a == AlongStep::linear_msc_fluct || a == AlongStep::field_msc_fluct;
}
inline bool has_field(AlongStep a)
{
    return a == AlongStep::field || a == AlongStep::field_fluct || a == AlongStep::field_msc
           || a == AlongStep::field_msc_fluct;
}

struct LoopConfig
{
    int geometry{1};  // geo zoo builtin id: 1 box-in-box, 2 spheres, 3 rotated daughter, 5 non-convex
    int geo_variant{0};
    AlongStep along{AlongStep::linear};
    unsigned slots{2};
    unsigned init_capacity{4096};
    unsigned max_events{16};
    TrackOrder track_order{TrackOrder::none};
    double secondary_stack_factor{3};
    double xs_gamma{0.5}, xs_electron{1.0};  // 1/cm in "mat"
    double dedx{2.0};  // MeV/cm for e+- in "mat" (0: no continuous loss)
    bool at_rest_annihilation{true};
    bool apply_post_interaction_cuts{true};
    bool integral_xs{false};
    double field_tesla{1.0};
    double msc_scaled_xs{20.0};  // MeV^2/cm: transport mfp = E^2 / this
    bool status_checker{false};
    unsigned max_streams{1};
    unsigned rng_seed{20220511};
    std::vector<Outcome> menu{Outcome::absorb, Outcome::scatter_half, Outcome::scatter_plus_one,
                              Outcome::absorb_two, Outcome::absorb_pair, Outcome::absorb_subcut,
                              Outcome::unchanged, Outcome::scatter_three, Outcome::annihilate,
                              Outcome::absorb_subcut_positron};
    double lowest_electron_energy{0.02};
    double fixed_step{0};  // PhysicsParamsOptions::fixed_step_limiter (0: off)
    // 4th particle: proton (positive, NOT an antiparticle, no MSC model): primary kind 3
    bool with_proton{false};
    bool bookkeeping{false};
    bool bookkeeping_extended{false};  // 11-letter alphabet bk_outcomes_ext()
    std::vector<StepActionOrder> probes;  // orders at which a ProbeAction is inserted
    std::vector<StepActionOrder> throwers;  // orders at which a ThrowAction is inserted
    // scoring variants (C17)
    bool second_recorder{false};
    StepInterface::Filters recorder2_filters{};
    StepSelection recorder2_selection{StepSelection::all()};
    std::vector<std::string> calo_volumes;  // non-empty: a SimpleCalo over these volumes
    // calo_tee: the SimpleCalo is not registered with the StepCollector itself but fed by the
    // recorder (Recorder::tee), whose detector map is then the calorimeter's; calo_volumes
    // {"*"} = every volume except the exterior, so that the recorder still sees every step
    bool calo_tee{false};
    bool action_diagnostic{false};
    bool step_diagnostic{false};
    unsigned step_diagnostic_max_bin{64};  // StepDiagnostic max_step_bin (bins = this + 2)
    bool with_recorder{true};
    StepInterface::Filters recorder_filters{};
    StepSelection recorder_selection{StepSelection::all()};
};

struct LoopProblem
{
    LoopConfig cfg;
    OrangeInput geo_input;
    std::unique_ptr<GeoOracle> oracle;
    std::shared_ptr<GeoParams const> geometry;
    std::shared_ptr<MaterialParams const> material;
    std::shared_ptr<ParticleParams const> particle;
    std::shared_ptr<CutoffParams const> cutoff;
    std::shared_ptr<PhysicsParams const> physics;
    std::shared_ptr<ScriptedShared> shared;
    std::shared_ptr<Recorder> recorder;
    std::shared_ptr<StepCollector> collector;
    std::shared_ptr<ProbeLog> probe_log;
    std::shared_ptr<ThrowCtl> throw_ctl;
    std::shared_ptr<Recorder> recorder2;
    std::shared_ptr<SimpleCalo> calo;
    std::shared_ptr<ActionDiagnostic> action_diag;
    std::shared_ptr<StepDiagnostic> step_diag;
    std::shared_ptr<CoreParams const> core;
    ParticleId gamma, electron, positron, proton;
    MaterialId mat, vacuum;
    ActionId along_step_id, boundary_id, tracking_cut_id, discrete_select_id;
    std::map<int, std::string> action_labels;

    std::unique_ptr<Stepper<MemSpace::host>> make_stepper(unsigned stream = 0,
                                                          bool action_times = false,
                                                          unsigned slots = 0) const
    {
        StepperInput in;
        in.params = core;
        in.stream_id = StreamId{stream};
        in.num_track_slots = slots ? slots : cfg.slots;
        in.action_times = action_times;
        return std::make_unique<Stepper<MemSpace::host>>(std::move(in));
    }
    Primary primary(int kind, double energy, std::array<double, 3> pos,
                    std::array<double, 3> dir, unsigned event = 0) const
    {
        Primary p;
        p.particle_id = kind == 0 ? gamma : kind == 1 ? electron : kind == 2 ? positron : proton;
        p.energy = units::MevEnergy{energy};
        p.position = {pos[0], pos[1], pos[2]};
        p.direction = {dir[0], dir[1], dir[2]};
        p.time = 0;
        p.event_id = EventId{event};
        return p;
    }
    double avail(int particle_id_int, double ke) const
    {
        return ke + (particle_id_int == int(positron.unchecked_get()) ? 2 * electron_mass_mev : 0);
    }
};

inline std::unique_ptr<LoopProblem> make_loop_problem(LoopConfig const& cfg)
{
    using namespace units;
    auto P = std::make_unique<LoopProblem>();
    P->cfg = cfg;
    // geometry
    OrangeInput gi;
    switch (cfg.geometry)
    {
        case 1: gi = zoo_g1(); break;
        case 2: gi = zoo_g2(); break;
        case 3: gi = zoo_g3(cfg.geo_variant); break;
        case 4: gi = zoo_g4(); break;
        case 5: gi = zoo_g5(); break;
        default: throw std::runtime_error("bad loop geometry");
    }
    P->geo_input = gi;
    P->oracle = std::make_unique<GeoOracle>(P->geo_input);
    auto geo = std::make_shared<GeoParams>(std::move(gi));
    P->geometry = geo;

    // materials
    {
        MaterialParams::Input inp;
        inp.elements = {{AtomicNumber{13}, AmuMass{27}, {}, "Al"}};
        inp.materials = {{native_value_from(MolCcDensity{0.1}), 293.0, MatterState::solid,
                          {{ElementId{0}, 1.0}}, "mat"},
                         {0, 0, MatterState::unspecified, {}, "vacuum"}};
        P->material = std::make_shared<MaterialParams>(std::move(inp));
        P->mat = MaterialId{0};
        P->vacuum = MaterialId{1};
    }
    // particles
    {
        using namespace constants;
        ParticleParams::Input defs;
        defs.push_back({"gamma", pdg::gamma(), zero_quantity(), zero_quantity(),
                        stable_decay_constant});
        defs.push_back({"electron", pdg::electron(), MevMass{electron_mass_mev},
                        ElementaryCharge{-1}, stable_decay_constant});
        defs.push_back({"positron", pdg::positron(), MevMass{electron_mass_mev},
                        ElementaryCharge{1}, stable_decay_constant});
        if (cfg.with_proton)
            defs.push_back({"proton", pdg::proton(), MevMass{938.27208816}, ElementaryCharge{1},
                            stable_decay_constant});
        P->particle = std::make_shared<ParticleParams>(std::move(defs));
        if (cfg.with_proton)
            P->proton = P->particle->find(pdg::proton());
        P->gamma = P->particle->find(pdg::gamma());
        P->electron = P->particle->find(pdg::electron());
        P->positron = P->particle->find(pdg::positron());
    }
    // geo-material: every volume whose label does not say world/background/exterior is "mat"
    {
        GeoMaterialParams::Input input;
        input.geometry = geo;
        input.materials = P->material;
        auto const& vols = geo->volumes();
        for (auto vid : range(VolumeId{vols.size()}))
        {
            std::string const& name = vols.at(vid).name;
            if (name.find("EXTERIOR") != std::string::npos)
                input.volume_to_mat.push_back(MaterialId{});
            else if (name.find("world") != std::string::npos || name == "g1" || name == "g2"
                     || name == "g3" || name == "g4" || name == "g5" || name == "d" || name == "e"
                     || name.find("bound") != std::string::npos)
                input.volume_to_mat.push_back(P->vacuum);
            else
                input.volume_to_mat.push_back(P->mat);
        }
        auto gm = std::make_shared<GeoMaterialParams>(std::move(input));
        // cutoffs
        CutoffParams::Input ci;
        ci.materials = P->material;
        ci.particles = P->particle;
        ci.cutoffs = {
            {pdg::gamma(), {{MevEnergy{0.02}, 0.1 * millimeter}, {MevEnergy{1e-4}, 1 * millimeter}}},
            {pdg::electron(), {{MevEnergy{0.05}, 0.1 * millimeter}, {MevEnergy{1e-4}, 1 * millimeter}}},
            {pdg::positron(), {{MevEnergy{0.05}, 0.1 * millimeter}, {MevEnergy{1e-4}, 1 * millimeter}}},
        };
        ci.apply_post_interaction = cfg.apply_post_interaction_cuts;
        P->cutoff = std::make_shared<CutoffParams>(std::move(ci));

        auto action_reg = std::make_shared<ActionRegistry>();
        auto output_reg = std::make_shared<OutputRegistry>();
        auto aux_reg = std::make_shared<AuxParamsRegistry>();

        // physics
        P->shared = std::make_shared<ScriptedShared>();
        P->shared->gamma = P->gamma;
        P->shared->electron = P->electron;
        P->shared->positron = P->positron;
        P->shared->proton = P->proton;
        P->shared->menu = cfg.menu;
        P->shared->bookkeeping = cfg.bookkeeping;
        P->shared->bk_extended = cfg.bookkeeping_extended;
        PhysicsParams::Input pin;
        pin.particles = P->particle;
        pin.materials = P->material;
        pin.options.secondary_stack_factor = cfg.secondary_stack_factor;
        pin.options.lowest_electron_energy = MevEnergy{cfg.lowest_electron_energy};
        pin.options.fixed_step_limiter = cfg.fixed_step;
        pin.action_registry = action_reg.get();
        auto add = [&](std::string label, ParticleId pid, double xs, bool zero_first, bool at_rest,
                       double dedx) {
            ScriptedProcessInput in;
            // cross sections are extrapolated below the table like for the real models, whose
            // applicability reaches down to zero energy
            in.lower_zero = true;
            in.label = std::move(label);
            in.particle = pid;
            in.xs_mat = xs;
            in.xs_starts_at_zero = zero_first;
            in.at_rest = at_rest;
            in.dedx_mat = dedx;
            in.integral = cfg.integral_xs;
            in.mat = P->mat;
            in.vacuum = P->vacuum;
            in.shared = P->shared;
            pin.processes.push_back(std::make_shared<ScriptedProcess>(std::move(in)));
        };
        bool const charged_eloss = cfg.dedx > 0 && cfg.along != AlongStep::neutral;
        add("script-gamma", P->gamma, cfg.xs_gamma, false, false, 0);
        add("script-electron", P->electron, cfg.xs_electron, true, false,
            charged_eloss ? cfg.dedx : 0);
        if (cfg.at_rest_annihilation)
        {
            // one process for e+ that is also the at-rest process (like EPlusGG)
            add("script-positron", P->positron, cfg.xs_electron, false, true,
                charged_eloss ? cfg.dedx : 0);
        }
        else
        {
            add("script-positron", P->positron, cfg.xs_electron, true, false,
                charged_eloss ? cfg.dedx : 0);
        }
        if (cfg.with_proton)
            add("script-proton", P->proton, cfg.xs_electron, true, false,
                charged_eloss ? cfg.dedx : 0);
        P->physics = std::make_shared<PhysicsParams>(std::move(pin));

        CoreParams::Input inp;
        inp.geometry = geo;
        inp.material = P->material;
        inp.geomaterial = gm;
        inp.particle = P->particle;
        inp.cutoff = P->cutoff;
        inp.physics = P->physics;
        inp.rng = std::make_shared<RngParams>(cfg.rng_seed);
        {
            SimParams::Input si;
            si.particles = P->particle;
            inp.sim = std::make_shared<SimParams>(si);
        }
        {
            TrackInitParams::Input ti;
            ti.capacity = cfg.init_capacity;
            ti.max_events = cfg.max_events;
            ti.track_order = cfg.track_order;
            inp.init = std::make_shared<TrackInitParams>(ti);
        }
        inp.action_reg = action_reg;
        inp.output_reg = output_reg;
        inp.aux_reg = aux_reg;
        inp.max_streams = cfg.max_streams;

        // along-step
        std::shared_ptr<CoreStepActionInterface const> along;
        std::shared_ptr<UrbanMscParams const> msc;
        if (has_msc(cfg.along))
        {
            // synthetic Urban MSC data: scaled transport cross section xs * E^2 [MeV^2/cm],
            // constant in "mat" (lambda_tr ~ E^2), negligible in the vacuum
            std::vector<ImportMscModel> mm;
            for (int pdg : {11, -11})
            {
                ImportMscModel m;
                m.particle_pdg = pdg;
                m.model_class = ImportModelClass::urban_msc;
                m.xs_table.table_type = ImportTableType::lambda;
                m.xs_table.x_units = ImportUnits::mev;
                m.xs_table.y_units = ImportUnits::mev_2_per_cm;
                for (double y : {cfg.msc_scaled_xs, 1e-12 * cfg.msc_scaled_xs})
                {
                    ImportPhysicsVector v;
                    v.vector_type = ImportPhysicsVectorType::log;
                    for (int k = 0; k <= 8; ++k)
                    {
                        v.x.push_back(1e-4 * std::pow(10.0, k));
                        v.y.push_back(y);
                    }
                    m.xs_table.physics_vectors.push_back(v);
                }
                mm.push_back(m);
            }
            msc = std::make_shared<UrbanMscParams>(*P->particle, *P->material, mm);
        }
        if (cfg.along == AlongStep::neutral)
        {
            along = std::make_shared<AlongStepNeutralAction>(action_reg->next_id());
        }
        else if (!has_field(cfg.along))
        {
            along = AlongStepGeneralLinearAction::from_params(
                action_reg->next_id(), *P->material, *P->particle, msc, has_fluct(cfg.along));
        }
        else
        {
            UniformFieldParams fp;
            fp.field = {0, 0, cfg.field_tesla * units::tesla};
            along = AlongStepUniformMscAction::from_params(
                action_reg->next_id(), *P->material, *P->particle, fp, msc, has_fluct(cfg.along));
        }
        P->along_step_id = along->action_id();
        action_reg->insert(std::const_pointer_cast<CoreStepActionInterface>(
            std::shared_ptr<CoreStepActionInterface const>(along)));

        if (cfg.status_checker)
        {
            auto sc = std::make_shared<StatusChecker>(action_reg->next_id(), aux_reg->next_id());
            action_reg->insert(sc);
            aux_reg->insert(sc);
        }
        if (!cfg.probes.empty())
        {
            P->probe_log = std::make_shared<ProbeLog>();
            for (auto ord : cfg.probes)
            {
                auto pa = std::make_shared<ProbeAction>(action_reg->next_id(), ord, P->probe_log);
                action_reg->insert(pa);
            }
        }
        if (!cfg.throwers.empty())
        {
            P->throw_ctl = std::make_shared<ThrowCtl>();
            for (auto ord : cfg.throwers)
            {
                action_reg->insert(
                    std::make_shared<ThrowAction>(action_reg->next_id(), ord, P->throw_ctl));
            }
        }
        auto core = std::make_shared<CoreParams>(std::move(inp));
        P->core = core;
        {
            StepCollector::VecInterface callbacks;
            if (cfg.with_recorder)
            {
                P->recorder = std::make_shared<Recorder>();
                if (cfg.max_streams > 1)
                    P->recorder->per_stream.resize(cfg.max_streams - 1);
                P->recorder->filters_ = cfg.recorder_filters;
                P->recorder->selection_ = cfg.recorder_selection;
                if (P->probe_log)
                    P->recorder->call_stamp = &P->probe_log->call;
                callbacks.push_back(P->recorder);
            }
            if (cfg.second_recorder)
            {
                P->recorder2 = std::make_shared<Recorder>();
                P->recorder2->filters_ = cfg.recorder2_filters;
                P->recorder2->selection_ = cfg.recorder2_selection;
                if (P->probe_log)
                    P->recorder2->call_stamp = &P->probe_log->call;
                callbacks.push_back(P->recorder2);
            }
            if (!cfg.calo_volumes.empty())
            {
                std::vector<Label> labels;
                if (cfg.calo_volumes.size() == 1 && cfg.calo_volumes[0] == "*")
                {
                    auto const& gv = geo->volumes();
                    for (auto vid : range(VolumeId{gv.size()}))
                        if (gv.at(vid).name.find("EXTERIOR") == std::string::npos)
                            labels.push_back(gv.at(vid));
                }
                else
                    for (auto const& n : cfg.calo_volumes)
                        labels.push_back(Label{n});
                P->calo = std::make_shared<SimpleCalo>(labels, *geo, cfg.max_streams);
                if (cfg.calo_tee && P->recorder)
                {
                    P->recorder->tee = P->calo;
                    P->recorder->filters_.detectors = P->calo->filters().detectors;
                }
                else
                    callbacks.push_back(P->calo);
            }
            if (!callbacks.empty())
                P->collector = StepCollector::make_and_insert(*core, std::move(callbacks));
            if (cfg.action_diagnostic)
                P->action_diag = ActionDiagnostic::make_and_insert(*core);
            if (cfg.step_diagnostic)
                P->step_diag = StepDiagnostic::make_and_insert(*core, cfg.step_diagnostic_max_bin);
        }
        for (auto aid : range(ActionId{action_reg->num_actions()}))
        {
            P->action_labels[int(aid.unchecked_get())] = std::string(action_reg->id_to_label(aid));
        }
        P->boundary_id = action_reg->find_action("geo-boundary");
        P->tracking_cut_id = action_reg->find_action("tracking-cut");
        P->discrete_select_id = action_reg->find_action("physics-discrete-select");
    }
    return P;
}

//---------------------------------------------------------------------------//
}  // namespace vf
