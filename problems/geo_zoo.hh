// Geometry zoo for the navigation checks (C03, C11, later C05/C08): OrangeInputs built with
// the orangeinp construction API (no data files) plus the bundled *.org.json inputs, each
// wrapped together with real OrangeParams, a host state and the independent oracle.
#pragma once

#include <cmath>
#include <fstream>
#include <memory>
#include <string>
#include <vector>

#include "corecel/data/CollectionStateStore.hh"
#include "corecel/math/Turn.hh"
#include "orange/MatrixUtils.hh"
#include "orange/OrangeData.hh"
#include "orange/OrangeInput.hh"
#include "orange/OrangeParams.hh"
#include "orange/OrangeTrackView.hh"
#include "orange/orangeinp/CsgObject.hh"
#include "orange/orangeinp/InputBuilder.hh"
#include "orange/orangeinp/Shape.hh"
#include "orange/orangeinp/Transformed.hh"
#include "orange/orangeinp/UnitProto.hh"
#include "orange/transform/Transformation.hh"
#include "orange/transform/Translation.hh"
#include "oracle/geo_oracle.hh"
#include "problems/geo_zoo_arrays.hh"

namespace vf
{
using namespace celeritas;
using namespace celeritas::orangeinp;

//---------------------------------------------------------------------------//
struct GeoEnv
{
    std::string name;
    OrangeInput input;
    std::shared_ptr<OrangeParams> params;
    std::unique_ptr<GeoOracle> oracle;
    CollectionStateStore<OrangeStateData, MemSpace::host> state;
    std::array<double, 3> lo{}, hi{};  // probe box (finite)
    int max_depth{1};

    OrangeTrackView view(size_type slot = 0)
    {
        return OrangeTrackView(params->host_ref(), state.ref(), TrackSlotId{slot});
    }
    double scale() const
    {
        double s = 1;
        for (int i = 0; i < 3; ++i)
            s = std::max({s, std::fabs(lo[i]), std::fabs(hi[i])});
        return s;
    }
};

inline std::unique_ptr<GeoEnv>
make_env(std::string name, OrangeInput inp, size_type slots = 2)
{
    auto env = std::make_unique<GeoEnv>();
    env->name = std::move(name);
    env->input = inp;  // keep a copy of the definition for the oracle
    env->oracle = std::make_unique<GeoOracle>(env->input);
    env->params = std::make_shared<OrangeParams>(std::move(inp));
    env->state = CollectionStateStore<OrangeStateData, MemSpace::host>(
        env->params->host_ref(), slots);
    auto const& bb = env->params->bbox();
    for (int i = 0; i < 3; ++i)
    {
        double l = bb.lower()[i], h = bb.upper()[i];
        if (!std::isfinite(l) || !std::isfinite(h) || !(h > l))
        {
            l = -10;
            h = 10;
        }
        // a little beyond the world so that "outside" is sampled as well
        double pad = 0.05 * (h - l);
        env->lo[i] = l - pad;
        env->hi[i] = h + pad;
    }
    env->max_depth = env->params->max_depth();
    return env;
}

//---------------------------------------------------------------------------//
// helpers in the style of the unit tests
namespace oi = celeritas::orangeinp;
template<class S, class... Args>
inline SPConstObject make_shape(std::string&& label, Args&&... args)
{
    return std::make_shared<oi::Shape<S>>(std::move(label), S{std::forward<Args>(args)...});
}
inline SPConstObject zoo_box(std::string l, Real3 const& half)
{
    return make_shape<oi::Box>(std::move(l), half);
}
inline SPConstObject zoo_sph(std::string l, double r)
{
    return make_shape<oi::Sphere>(std::move(l), r);
}
inline SPConstObject zoo_cyl(std::string l, double r, double hh)
{
    return make_shape<oi::Cylinder>(std::move(l), r, hh);
}
inline SPConstObject zoo_tr(SPConstObject o, VariantTransform t)
{
    return std::make_shared<Transformed>(std::move(o), std::move(t));
}
inline UnitProto::MaterialInput zoo_mat(SPConstObject o, unsigned m, std::string label = {})
{
    UnitProto::MaterialInput r;
    r.interior = std::move(o);
    r.fill = GeoMaterialId{m};
    if (!label.empty())
        r.label = Label{label};
    return r;
}
inline OrangeInput zoo_build(UnitProto const& global)
{
    InputBuilder::Options opts;
    opts.tol = Tolerance<>::from_default();
    InputBuilder build(std::move(opts));
    return build(global);
}

// G1: box in box
inline OrangeInput zoo_g1()
{
    UnitProto::Input inp;
    inp.label = "g1";
    inp.boundary.interior = zoo_box("world", {4, 4, 4});
    inp.materials.push_back(zoo_mat(zoo_tr(zoo_box("inner", {1, 1.5, 0.75}),
                                           Translation{{0.5, -0.25, 0.125}}),
                                    1));
    inp.background.fill = GeoMaterialId{0};
    return zoo_build(UnitProto{std::move(inp)});
}
// G2: concentric spheres + an off-centre one
inline OrangeInput zoo_g2()
{
    UnitProto::Input inp;
    inp.label = "g2";
    auto s1 = zoo_sph("s1", 1.0);
    auto s2 = zoo_sph("s2", 2.5);
    auto s3 = zoo_sph("s3", 4.0);
    inp.boundary.interior = zoo_sph("world", 6.0);
    inp.materials.push_back(zoo_mat(s1, 1));
    inp.materials.push_back(zoo_mat(make_subtraction("shell12", s2, s1), 2));
    inp.materials.push_back(zoo_mat(make_subtraction("shell23", s3, s2), 3));
    inp.materials.push_back(
        zoo_mat(zoo_tr(zoo_sph("off", 0.75), Translation{{0, 4.5, 2.0}}), 4));
    inp.background.fill = GeoMaterialId{0};
    return zoo_build(UnitProto{std::move(inp)});
}
// daughter unit: box boundary with a sphere and a cylinder inside
inline std::shared_ptr<UnitProto> zoo_daughter(std::string label, bool with_inner_daughter = false,
                                               VariantTransform inner_tr = NoTransformation{})
{
    UnitProto::Input inp;
    inp.label = label;
    inp.boundary.interior = zoo_box(label + ":bound", {1.5, 1.0, 1.25});
    inp.boundary.zorder = ZOrder::media;
    inp.materials.push_back(
        zoo_mat(zoo_tr(zoo_sph(label + ":sph", 0.5), Translation{{-0.75, 0.25, 0}}), 1));
    if (with_inner_daughter)
    {
        UnitProto::Input in2;
        in2.label = label + ":leaf";
        in2.boundary.interior = zoo_cyl(label + ":leafbound", 0.4, 0.6);
        in2.boundary.zorder = ZOrder::media;
        in2.materials.push_back(
            zoo_mat(zoo_tr(zoo_box(label + ":leafbox", {0.15, 0.2, 0.3}),
                           Translation{{0.05, 0.0, 0.1}}),
                    3));
        in2.background.fill = GeoMaterialId{4};
        inp.daughters.push_back(
            {std::make_shared<UnitProto>(std::move(in2)), std::move(inner_tr)});
    }
    else
    {
        inp.materials.push_back(
            zoo_mat(zoo_tr(zoo_cyl(label + ":cyl", 0.4, 0.6), Translation{{0.7, -0.2, 0.1}}), 2));
    }
    inp.background.fill = GeoMaterialId{5};
    return std::make_shared<UnitProto>(std::move(inp));
}
// G3: world with a rotated + translated daughter (two levels); variant selects the transform
inline OrangeInput zoo_g3(int variant)
{
    UnitProto::Input inp;
    inp.label = "g3";
    inp.boundary.interior = zoo_box("world", {5, 5, 5});
    VariantTransform tr;
    switch (variant)
    {
        case 0: tr = Transformation{make_rotation(Axis::z, Turn{0.25}), {0, 0, 0}}; break;
        case 1: tr = Transformation{make_rotation(Axis::z, Turn{1.0 / 12}), {0.5, -0.75, 0.25}}; break;
        case 2:
            tr = Transformation{make_rotation(Real3{0.57735026918962573, 0.57735026918962573,
                                                    0.57735026918962573},
                                              Turn{0.2}),
                                {-0.5, 0.5, 0.75}};
            break;
        case 3: {
            // reflection through the x=0 plane composed with a rotation about z
            SquareMatrixReal3 r = make_rotation(Axis::z, Turn{0.1});
            for (int i = 0; i < 3; ++i)
                r[i][0] = -r[i][0];
            tr = Transformation{r, {0.25, 0.5, -0.5}};
            break;
        }
        default: tr = Translation{{1, -1, 0.5}}; break;
    }
    inp.daughters.push_back({zoo_daughter("d"), tr});
    inp.materials.push_back(
        zoo_mat(zoo_tr(zoo_sph("ball", 0.8), Translation{{-3, 3, -2.5}}), 6));
    inp.background.fill = GeoMaterialId{0};
    return zoo_build(UnitProto{std::move(inp)});
}
// G4: three levels: world > rotated daughter > rotated leaf
inline OrangeInput zoo_g4()
{
    UnitProto::Input inp;
    inp.label = "g4";
    inp.boundary.interior = zoo_sph("world", 6);
    inp.daughters.push_back(
        {zoo_daughter("d", true,
                      Transformation{make_rotation(Axis::x, Turn{0.15}), {0.7, -0.2, 0.1}}),
         Transformation{make_rotation(Axis::z, Turn{1.0 / 12}), {0.5, -0.75, 0.25}}});
    inp.daughters.push_back({zoo_daughter("e"), Translation{{-2.5, 2.5, -1.0}}});
    inp.background.fill = GeoMaterialId{0};
    return zoo_build(UnitProto{std::move(inp)});
}
// G5: non-convex volumes (box minus cylinder, union of spheres, cone)
inline OrangeInput zoo_g5()
{
    UnitProto::Input inp;
    inp.label = "g5";
    inp.boundary.interior = zoo_box("world", {5, 5, 5});
    auto box = zoo_box("blk", {2, 1.5, 1});
    auto hole = zoo_cyl("hole", 0.6, 2.0);
    inp.materials.push_back(zoo_mat(make_subtraction("blk-hole", box, hole), 1));
    auto sa = zoo_tr(zoo_sph("sa", 0.9), Translation{{-3, -3, 0}});
    auto sb = zoo_tr(zoo_sph("sb", 0.9), Translation{{-2.2, -3, 0.4}});
    inp.materials.push_back(zoo_mat(
        std::make_shared<AnyObjects>("dumbbell", std::vector<SPConstObject>{sa, sb}), 2));
    inp.materials.push_back(zoo_mat(
        zoo_tr(make_shape<oi::Cone>("cone", Real2{0.3, 1.2}, 1.0), Translation{{3, 3, 2}}), 3));
    inp.materials.push_back(zoo_mat(
        zoo_tr(make_shape<oi::Ellipsoid>("ell", Real3{0.5, 1.0, 1.5}), Translation{{3, -3, -2}}), 4));
    inp.materials.push_back(zoo_mat(
        zoo_tr(make_shape<oi::Cylinder>("tilt", 0.5, 1.0),
               Transformation{make_rotation(Real3{0.6, 0.0, 0.8}, Turn{0.13}), {-3, 3, 2}}),
        5));
    inp.background.fill = GeoMaterialId{0};
    return zoo_build(UnitProto{std::move(inp)});
}

// G6: volumes whose logic applies "|" WHILE ANOTHER OPERAND IS PENDING beneath it
// (all{sphere, any{slab, slab}} -> postfix "S A.. B.. | &"): the left and right caps of a ball,
// and a frame all{box, any{bar, bar, bar}}; the union operands do not overlap, so every
// combination "pending operand false / first operand of the | true" is met by some ray or point
inline OrangeInput zoo_g6()
{
    UnitProto::Input inp;
    inp.label = "g6";
    inp.boundary.interior = zoo_box("world", {5, 5, 5});
    auto ball = zoo_sph("ball", 2.0);
    auto left = zoo_tr(zoo_box("left", {0.45, 3, 3}), Translation{{-1.45, 0, 0}});
    auto right = zoo_tr(zoo_box("right", {0.6, 3, 3}), Translation{{1.3, 0.1, 0}});
    auto slabs = std::make_shared<AnyObjects>("slabs", std::vector<SPConstObject>{left, right});
    inp.materials.push_back(
        zoo_mat(std::make_shared<AllObjects>("caps", std::vector<SPConstObject>{ball, slabs}), 1));
    auto plate = zoo_tr(zoo_box("plate", {1.5, 1.0, 0.4}), Translation{{0, 3.2, -3.5}});
    auto b1 = zoo_tr(zoo_box("b1", {0.2, 2, 2}), Translation{{-1.0, 3.2, -3.5}});
    auto b2 = zoo_tr(zoo_box("b2", {0.2, 2, 2}), Translation{{0.1, 3.2, -3.5}});
    auto b3 = zoo_tr(zoo_box("b3", {0.15, 2, 2}), Translation{{1.2, 3.2, -3.5}});
    auto bars = std::make_shared<AnyObjects>("bars", std::vector<SPConstObject>{b1, b2, b3});
    inp.materials.push_back(
        zoo_mat(std::make_shared<AllObjects>("frame", std::vector<SPConstObject>{plate, bars}), 2));
    inp.background.fill = GeoMaterialId{0};
    return zoo_build(UnitProto{std::move(inp)});
}

// G7: curved surfaces whose axis is NOT z (every other builtin / bundled cylinder or cone is
// z-aligned or generically tilted): the simplifier turns quarter-turn placements into the
// axis-aligned types cx (off-centre x cylinder), cy, cyc / cxc (centred), kx and ky (cones)
inline OrangeInput zoo_g7()
{
    UnitProto::Input inp;
    inp.label = "g7";
    inp.boundary.interior = zoo_box("world", {5, 5, 5});
    // centred y cylinder with a centred x-aligned bore: cyc, cxc + py, px caps
    auto cyc = zoo_tr(zoo_cyl("cyc", 0.9, 1.6), Transformation{make_rotation(Axis::x, Turn{0.25}), {0, 0, 0}});
    auto cxc = zoo_tr(zoo_cyl("cxc", 0.35, 2.5), Transformation{make_rotation(Axis::y, Turn{0.25}), {0, 0, 0}});
    inp.materials.push_back(zoo_mat(make_subtraction("cyc-cxc", cyc, cxc), 1));
    // off-centre x cylinder: cx
    inp.materials.push_back(zoo_mat(
        zoo_tr(zoo_cyl("cx", 0.4, 0.8), Transformation{make_rotation(Axis::y, Turn{0.25}), {2.75, -2.5, 1.25}}), 2));
    // off-centre y cylinder: cy
    inp.materials.push_back(zoo_mat(
        zoo_tr(zoo_cyl("cy", 0.55, 1.1), Transformation{make_rotation(Axis::x, Turn{0.25}), {-2.5, 2.25, -1.5}}),
        3));
    // x-aligned and y-aligned truncated cones: kx, ky
    inp.materials.push_back(zoo_mat(
        zoo_tr(make_shape<oi::Cone>("kx", Real2{0.3, 1.2}, 1.0),
               Transformation{make_rotation(Axis::y, Turn{0.25}), {-2.5, -3, 2.5}}),
        4));
    inp.materials.push_back(zoo_mat(
        zoo_tr(make_shape<oi::Cone>("ky", Real2{1.0, 0.25}, 0.9),
               Transformation{make_rotation(Axis::x, Turn{0.25}), {3, 3, -2.75}}),
        5));
    inp.background.fill = GeoMaterialId{0};
    return zoo_build(UnitProto{std::move(inp)});
}

inline OrangeInput load_org_json(std::string const& path)
{
    OrangeInput inp;
    std::ifstream f(path);
    if (!f)
        throw std::runtime_error("cannot open " + path);
    f >> inp;
    return inp;
}

struct ZooEntry
{
    std::string name;
    std::string file;  // non-empty: bundled json
    int builtin{-1};
    int variant{0};
};

//! `extended` (default off: existing users keep their zoo) appends inputs added later:
//!   hex-array: 51-cell unit bounded by general planes `p` at an INTERMEDIATE level (leaf
//!   boundaries elided), 50 daughters, BIH with strongly overlapping cell boxes;
//!   g6 (pending-operand logic), g7 (x- / y-aligned cylinders and cones), ra* (unequal arrays)
inline std::vector<ZooEntry> zoo_entries(bool with_files = true, bool extended = false)
{
    std::vector<ZooEntry> v;
    v.push_back({"g1", "", 1, 0});
    v.push_back({"g2", "", 2, 0});
    for (int k = 0; k < 5; ++k)
        v.push_back({"g3." + std::to_string(k), "", 3, k});
    v.push_back({"g4", "", 4, 0});
    v.push_back({"g5", "", 5, 0});
    if (extended)
    {
        v.push_back({"g6", "", 6, 0});
        v.push_back({"g7", "", 8, 0});
        // rectangular arrays with unequal cell counts (problems/geo_zoo_arrays.hh); variant
        // >= 1000: grid origin (-1.5, 0.25, -2) and alternating cell widths w, 1.5 w, w, ...
        v.push_back({"ra5x2x1", "", 7, 521});
        v.push_back({"ra2x5x1", "", 7, 1251});
        v.push_back({"ra1x2x6", "", 7, 1126});
    }
    if (with_files)
    {
        char const* repo = getenv("VERIF_REPO");
        std::string base = repo ? repo : "/repo";
        for (char const* f : {"test/orange/data/five-volumes.org.json",
                              "test/orange/data/universes.org.json",
                              "test/orange/data/rect-array.org.json",
                              "test/orange/data/nested-rect-arrays.org.json",
                              "test/orange/data/inputbuilder-bgspheres.org.json",
                              "test/orange/data/inputbuilder-globalspheres.org.json",
                              "test/orange/data/inputbuilder-hierarchy.org.json",
                              "test/orange/data/inputbuilder-incomplete-bb.org.json",
                              "test/orange/data/inputbuilder-universes.org.json",
                              "test/orange/data/inputbuilder-universe-union-boundary.org.json",
                              "test/orange/data/field-layers.org.json",
                              "test/orange/data/geant4-testem15.org.json",
                              "test/orange/data/testem3.org.json",
                              "test/geocel/data/two-boxes.org.json",
                              "test/geocel/data/three-spheres.org.json",
                              "test/geocel/data/simple-cms.org.json",
                              "test/geocel/data/lar-sphere.org.json",
                              "test/geocel/data/lead-box.org.json",
                              "test/geocel/data/one-steel-sphere.org.json",
                              "test/geocel/data/four-steel-slabs.org.json",
                              "test/geocel/data/testem15.org.json",
                              "test/geocel/data/testem3-flat.org.json"})
        {
            std::string s = f;
            auto b = s.rfind('/');
            v.push_back({s.substr(b + 1, s.size() - b - 1 - 9), base + "/" + s, 0, 0});
        }
        if (extended)
            v.push_back({"hex-array", base + "/test/orange/data/hex-array.org.json", 0, 0});
    }
    return v;
}

inline std::unique_ptr<GeoEnv> zoo_make(ZooEntry const& e, size_type slots = 2)
{
    if (!e.file.empty())
        return make_env(e.name, load_org_json(e.file), slots);
    switch (e.builtin)
    {
        case 1: return make_env(e.name, zoo_g1(), slots);
        case 2: return make_env(e.name, zoo_g2(), slots);
        case 3: return make_env(e.name, zoo_g3(e.variant), slots);
        case 4: return make_env(e.name, zoo_g4(), slots);
        case 5: return make_env(e.name, zoo_g5(), slots);
        case 6: return make_env(e.name, zoo_g6(), slots);
        case 7:
            return make_env(e.name,
                            zoo_array((e.variant / 100) % 10, (e.variant / 10) % 10, e.variant % 10,
                                      e.variant >= 1000),
                            slots);
        case 8: return make_env(e.name, zoo_g7(), slots);
    }
    throw std::runtime_error("bad zoo entry");
}

//---------------------------------------------------------------------------//
}  // namespace vf
