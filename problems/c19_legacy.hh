// FAMILY legacy for C19 (included from problems/c19_programs.hh): literal JSON texts in the legacy
// (SCALE export, "version 0") spellings that from_json still accepts but that neither to_json
// nor any bundled file produces:
//   - unit keys "cells" / "cell_names" / "surface_names", "_type": "simple unit"
//   - unit daughters through "parent_volumes" (text 1) resp. "parent_cells" (text 2) with the
//     FLAT "translations" list (3 numbers per daughter, a zero triple meaning "no transformation")
//   - integer z-orders 1..4 and 65534 (implicit exterior)
//   - a rectangular array ("_type": "rectangular array") whose cells are listed in a permuted
//     order given by "parent_cells"
// The texts are decoded by the harness's own decoder (cmp_raw, signature prefix "reader") and
// compared with what the real reader made of them; then they take the normal round trip and the
// differential navigation (both describe consistent geometries).
//
// Envelope letters (d2, patched copies of text 1): "_units" native / foreign (must throw),
// "_format": "orange", and a copy without any cell_names / surface_names key.
//
// Not used: the integer z-order of the global exterior.  The reader maps 65533 to 'exterior'
// (uint16_max - 3 with uint16_max = 65536) whereas a 16-bit -1 would be 65535; no documentation or
// bundled file says which one SCALE wrote, so neither value is part of the alphabet.
#pragma once

namespace c19
{
namespace legacy
{
//! Box world split by a plane at x = -0.1; left half holds a sphere unit (translated), right half
//! a z-cylinder unit (zero triple = not transformed).
inline char const* text_unit_translations()
{
    return R"json({
"_format": "SCALE ORANGE", "_version": 0,
"universes": [
 {"_type": "simple unit", "md": {"name": "global"},
  "bbox": [[-4.0, -4.0, -4.0], [4.0, 4.0, 4.0]],
  "surfaces": {"types": ["px", "px", "py", "py", "pz", "pz", "px"],
               "sizes": [1, 1, 1, 1, 1, 1, 1],
               "data": [-4.0, 4.0, -4.0, 4.0, -4.0, 4.0, -0.1]},
  "surface_names": ["mx", "px", "my", "py", "mz", "pz", "mid@s"],
  "cell_names": ["[EXTERIOR]", "left@g", "right"],
  "cells": [
   {"faces": [0, 1, 2, 3, 4, 5], "logic": "0 1 ~ & 2 & 3 ~ & 4 & 5 ~ & ~", "flags": 1, "zorder": 2},
   {"faces": [0, 2, 3, 4, 5, 6], "logic": "0 1 & 2 ~ & 3 & 4 ~ & 5 ~ &", "zorder": 4,
    "bbox": [[-4.0, -4.0, -4.0], [-0.1, 4.0, 4.0]]},
   {"faces": [1, 2, 3, 4, 5, 6], "logic": "0 ~ 1 & 2 ~ & 3 & 4 ~ & 5 &", "zorder": 3}],
  "parent_volumes": [1, 2], "daughters": [1, 2],
  "translations": [-2.0, 0.25, -0.5, 0.0, 0.0, 0.0]},
 {"_type": "unit", "md": {"name": "S@child"},
  "surfaces": {"types": ["sc"], "sizes": [1], "data": [0.64]},
  "surface_names": ["S.sph@sc"],
  "cell_names": ["[EXTERIOR]@S", "Sin", "Sout@o"],
  "cells": [
   {"faces": [], "logic": "* ~", "flags": 2, "zorder": 65534},
   {"faces": [0], "logic": "0 ~", "zorder": 2, "bbox": [[-0.8, -0.8, -0.8], [0.8, 0.8, 0.8]]},
   {"faces": [0], "logic": "0", "zorder": 2}]},
 {"_type": "simple unit", "md": {"name": "Z"},
  "surfaces": {"types": ["czc"], "sizes": [1], "data": [0.09]},
  "surface_names": ["Z.cyl"],
  "cell_names": ["[EXTERIOR]@Z", "Zin", "Zout", "Zbg@bg"],
  "cells": [
   {"faces": [], "logic": "* ~", "flags": 2, "zorder": 65534},
   {"faces": [0], "logic": "0 ~", "zorder": 2},
   {"faces": [0], "logic": "0", "zorder": 2},
   {"faces": [0], "logic": "* ~", "flags": 2, "zorder": 1}]}
]})json";
}

//! Box world with a 3x1x1 array; the array's cells are listed in the order 2, 0, 1 with three
//! different daughters (sphere unit, cylinder unit, all-fill unit at a zero triple).
inline char const* text_array_parent_cells()
{
    return R"json({
"_format": "SCALE ORANGE", "_version": 0,
"universes": [
 {"_type": "unit", "md": {"name": "global"},
  "bbox": [[-3.0, -2.0, -2.0], [3.0, 2.0, 2.0]],
  "surfaces": {"types": ["px", "px", "py", "py", "pz", "pz", "px", "px", "py", "py", "pz", "pz"],
               "sizes": [1, 1, 1, 1, 1, 1, 1, 1, 1, 1, 1, 1],
               "data": [-3.0, 3.0, -2.0, 2.0, -2.0, 2.0, -1.5, 1.5, -0.5, 0.5, -0.5, 0.5]},
  "surface_names": ["o.mx", "o.px", "o.my", "o.py", "o.mz", "o.pz",
                    "a.mx@a", "a.px@a", "a.my@a", "a.py@a", "a.mz@a", "a.pz@a"],
  "cell_names": ["[EXTERIOR]", "arrfill", "interior@g"],
  "cells": [
   {"faces": [0, 1, 2, 3, 4, 5], "logic": "0 1 ~ & 2 & 3 ~ & 4 & 5 ~ & ~", "flags": 1, "zorder": 2},
   {"faces": [6, 7, 8, 9, 10, 11], "logic": "0 1 ~ & 2 & 3 ~ & 4 & 5 ~ &", "zorder": 3,
    "bbox": [[-1.5, -0.5, -0.5], [1.5, 0.5, 0.5]]},
   {"faces": [0, 1, 2, 3, 4, 5, 6, 7, 8, 9, 10, 11],
    "logic": "0 1 ~ & 2 & 3 ~ & 4 & 5 ~ & 6 7 ~ & 8 & 9 ~ & 10 & 11 ~ & ~ &", "flags": 1, "zorder": 2}],
  "parent_cells": [1], "daughters": [1],
  "translations": [-1.5, -0.5, -0.5]},
 {"_type": "rectangular array", "md": {"name": "lattice@arr"},
  "x": [0.0, 1.0, 2.0, 3.0], "y": [0.0, 1.0], "z": [0.0, 1.0],
  "parent_cells": [2, 0, 1], "daughters": [2, 3, 4],
  "translations": [2.5, 0.5, 0.5, 0.5, 0.5, 0.5, 0.0, 0.0, 0.0]},
 {"_type": "unit", "md": {"name": "S"},
  "bbox": [[-0.5, -0.5, -0.5], [0.5, 0.5, 0.5]],
  "surfaces": {"types": ["sc"], "sizes": [1], "data": [0.16]},
  "surface_names": ["S.sph"],
  "cell_names": ["[EXTERIOR]@S", "Sin", "Sout"],
  "cells": [
   {"faces": [], "logic": "* ~", "flags": 2, "zorder": 65534},
   {"faces": [0], "logic": "0 ~", "zorder": 2},
   {"faces": [0], "logic": "0", "zorder": 2}]},
 {"_type": "unit", "md": {"name": "Z"},
  "bbox": [[-0.5, -0.5, -0.5], [0.5, 0.5, 0.5]],
  "surfaces": {"types": ["czc"], "sizes": [1], "data": [0.09]},
  "surface_names": ["Z.cyl"],
  "cell_names": ["[EXTERIOR]@Z", "Zin", "Zout"],
  "cells": [
   {"faces": [], "logic": "* ~", "flags": 2, "zorder": 65534},
   {"faces": [0], "logic": "0 ~", "zorder": 2},
   {"faces": [0], "logic": "0", "zorder": 2}]},
 {"_type": "unit", "md": {"name": "C"},
  "bbox": [[0.0, 0.0, 0.0], [1.0, 1.0, 1.0]],
  "surfaces": {"types": [], "sizes": [], "data": []},
  "surface_names": [],
  "cell_names": ["[EXTERIOR]@C", "Cfill"],
  "cells": [
   {"faces": [], "logic": "* ~", "flags": 2, "zorder": 65534},
   {"faces": [], "logic": "*", "zorder": 2}]}
]})json";
}
}  // namespace legacy

inline void add_legacy_programs(std::vector<Program>& out)
{
    struct Item
    {
        char const* id;
        char const* text;
        bool navigate;
        std::vector<std::string> tags;
    };
    std::vector<Item> const items = {
        {"legacy:unit-parent_volumes+flat-translations", legacy::text_unit_translations(), true,
         {"r:legacy-key(parent_volumes)", "r:legacy-key(unit translations)", "r:legacy-key(cells)",
          "r:legacy-key(cell_names)", "r:legacy-key(surface_names)", "r:legacy-zorder-int",
          "r:legacy-zorder-int(1,2,3,4,65534)", "r:legacy-type(simple unit)", "r:unit-translation-zero-triple"}},
        {"legacy:array-parent_cells-permutation", legacy::text_array_parent_cells(), true,
         {"r:array-parent_cells", "r:array-parent_cells(non-identity)", "r:legacy-key(unit translations)",
          "r:legacy-type(rectangular array)", "r:legacy-zorder-int"}},
    };
    for (auto const& it : items)
    {
        Program p;
        p.id = it.id;
        p.navigate = it.navigate;
        p.source_text = it.text;
        p.file_entry = it.navigate;
        p.extra_tags = it.tags;
        std::string const text = it.text;
        p.make = [text] {
            OrangeInput in;
            nlohmann::json::parse(text).get_to(in);
            return in;
        };
        out.push_back(std::move(p));
    }

    // (d2) envelope letters made by patching the parsed text of text_unit_translations():
    //   "_units": <native>      must read exactly like the unpatched text (normal checks)
    //   "_units": <non-native>  check_units (JsonUtils.json.cc) must refuse it: a text written by a
    //                           build with another unit system has lengths off by 10x / 100x
    //   "_format": "orange"     third accepted spelling
    //   no cell_names / surface_names keys at all: every volume gets the default Label, the
    //                           surface label list stays empty (structure only, no navigation)
    auto patched = [](auto&& fn) {
        nlohmann::json j = nlohmann::json::parse(legacy::text_unit_translations());
        fn(j);
        return j.dump();
    };
    std::string const native = celeritas::to_cstring(celeritas::UnitSystem::native);
    std::string foreign;
    for (char const* u : {"cgs", "si", "clhep"})
        if (native != u && foreign.empty())
            foreign = u;
    struct PItem
    {
        std::string id, text;
        bool navigate, expect_throw;
        std::vector<std::string> tags;
    };
    std::vector<PItem> const pitems = {
        {"legacy:units-native", patched([&](nlohmann::json& j) { j["_units"] = native; }), true, false,
         {"r:units-key(native)"}},
        {"legacy:units-foreign-must-throw", patched([&](nlohmann::json& j) { j["_units"] = foreign; }), false, true,
         {"r:units-key(foreign)"}},
        {"legacy:format-lowercase-orange", patched([&](nlohmann::json& j) { j["_format"] = "orange"; }), false, false,
         {"r:format(orange)"}},
        {"legacy:no-label-lists",
         patched([&](nlohmann::json& j) {
             for (auto& u : j["universes"])
             {
                 u.erase("cell_names");
                 u.erase("surface_names");
             }
         }),
         false, false,
         {"r:label-lists-absent"}},
    };
    for (auto const& it : pitems)
    {
        Program p;
        p.id = it.id;
        p.navigate = it.navigate;
        p.source_text = it.text;
        p.file_entry = false;
        p.extra_tags = it.tags;
        p.expect_throw = it.expect_throw;
        std::string const text = it.text;
        p.make = [text] {
            OrangeInput in;
            nlohmann::json::parse(text).get_to(in);
            return in;
        };
        out.push_back(std::move(p));
    }
}
}  // namespace c19
