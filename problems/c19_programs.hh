// Program zoo for C19 (JSON round trip of geometry input).  Each program yields one complete
// OrangeInput.  See harness/c19_json_roundtrip.cc for the list of families.
#pragma once

#include <cmath>
#include <filesystem>
#include <fstream>
#include <functional>
#include <limits>
#include <memory>
#include <numeric>
#include <string>
#include <vector>
#include <nlohmann/json.hpp>
#include <stdexcept>
#include <sys/wait.h>
#include <unistd.h>

#include "corecel/io/Label.hh"
#include "corecel/math/ArrayOperators.hh"
#include "corecel/math/ArrayUtils.hh"
#include "orange/MatrixUtils.hh"
#include "orange/OrangeInput.hh"
#include "orange/OrangeInputIO.json.hh"
#include "orange/OrangeTypes.hh"
#include "orange/orangeinp/CsgObject.hh"
#include "orange/orangeinp/InputBuilder.hh"
#include "orange/orangeinp/PolySolid.hh"
#include "orange/orangeinp/Shape.hh"
#include "orange/orangeinp/Solid.hh"
#include "orange/orangeinp/Transformed.hh"
#include "orange/orangeinp/UnitProto.hh"
#include "orange/surf/VariantSurface.hh"
#include "orange/transform/VariantTransform.hh"
#include "engine/harness.hh"

namespace c19
{
using namespace celeritas;
using vf::fmt;

// Thrown by a program whose input contains an Involute surface when the JSON reader cannot
// take surface type "inv" (see involute_reader_status)
struct UnreadableInvolute : std::runtime_error
{
    using std::runtime_error::runtime_error;
};

// Probe (once, in a forked child so that undefined behaviour cannot take the harness down)
// whether the JSON reader accepts surface type "inv".
//   0 = reads fine, 1 = throws a C++ exception, 2 = child killed by a signal / abnormal exit
inline int involute_reader_status()
{
    static int const status = [] {
        fflush(nullptr);
        pid_t pid = fork();
        if (pid < 0)
            return 2;
        if (pid == 0)
        {
            for (int sig : {SIGSEGV, SIGBUS, SIGFPE, SIGILL, SIGABRT, SIGALRM})
                signal(sig, SIG_DFL);
            int devnull = ::open("/dev/null", O_WRONLY);
            if (devnull >= 0)
            {
                dup2(devnull, 1);
                dup2(devnull, 2);
            }
            try
            {
                auto j = nlohmann::json::parse(
                    R"({"_format":"ORANGE","_version":0,"universes":[{"_type":"unit",
                    "md":{"name":"u"},"surfaces":{"types":["inv"],"sizes":[6],
                    "data":[0.0,0.0,1.0,0.5,0.25,3.0]},"surface_labels":["i"],
                    "volume_labels":["v"],"volumes":[{"faces":[0],"logic":"0"}]}]})");
                OrangeInput in;
                j.get_to(in);
                _exit(in.universes.size() == 1 ? 0 : 1);
            }
            catch (...)
            {
                _exit(1);
            }
        }
        int st = 0;
        if (waitpid(pid, &st, 0) != pid)
            return 2;
        if (WIFEXITED(st) && WEXITSTATUS(st) == 0)
            return 0;
        if (WIFEXITED(st) && WEXITSTATUS(st) == 1)
            return 1;
        return 2;
    }();
    return status;
}

struct Program
{
    std::string id;
    std::function<OrangeInput()> make;
    bool navigate = true;
    std::vector<std::string> extra_tags;
    std::string source_file;  // bundled file the input is read from (family file)
    std::string source_text;  // literal JSON text the input is read from (family legacy)
    bool file_entry = false;  // also exercise the file-name entry points of OrangeParams
    int nav_per_class = 0;  // >0: navigate only this many programs per structure class
    bool expect_throw = false;  // make() must throw (text the reader is documented to refuse)
};

//---------------------------------------------------------------------------//
// FAMILY file: every bundled .org.json
//---------------------------------------------------------------------------//
inline void add_file_programs(std::vector<Program>& out, vf::Run& R)
{
    namespace fs = std::filesystem;
    char const* env = getenv("VERIF_REPO");
    std::string const repo = env ? env : "/repo";
    size_t found = 0;
    for (char const* sub : {"test/geocel/data", "test/orange/data"})
    {
        std::vector<std::string> names;
        std::error_code ec;
        for (auto const& e : fs::directory_iterator(fs::path(repo) / sub, ec))
        {
            std::string n = e.path().filename().string();
            std::string const suffix = ".org.json";
            if (n.size() > suffix.size()
                && n.compare(n.size() - suffix.size(), suffix.size(), suffix) == 0)
                names.push_back(n);
        }
        std::sort(names.begin(), names.end());
        for (auto const& n : names)
        {
            ++found;
            std::string const path = (fs::path(repo) / sub / n).string();
            Program p;
            p.id = fmt("file:%s/%s", sub, n.c_str());
            p.source_file = path;
            p.file_entry = true;
            // legacy-format reader branches, read off the raw text
            {
                std::ifstream f(path);
                nlohmann::json j = nlohmann::json::parse(f, nullptr, false);
                if (!j.is_discarded())
                {
                    if (j.value("_format", "") == "SCALE ORANGE")
                        p.extra_tags.push_back("r:legacy-format(SCALE ORANGE)");
                    if (!j.contains("tol"))
                        p.extra_tags.push_back("r:tol-absent(default)");
                    if (j.contains("universes"))
                        for (auto const& u : j["universes"])
                        {
                            if (u.contains("cells"))
                                p.extra_tags.push_back("r:legacy-key(cells)");
                            if (u.contains("cell_names"))
                                p.extra_tags.push_back("r:legacy-key(cell_names)");
                            if (u.contains("surface_names"))
                                p.extra_tags.push_back("r:legacy-key(surface_names)");
                            if (u.contains("translations") && u.value("_type", "") != "rectarray"
                                && u.value("_type", "") != "rectangular array")
                                p.extra_tags.push_back("r:legacy-key(unit translations)");
                            if (u.contains("parent_cells") && u.contains("_type")
                                && (u["_type"] == "rectarray" || u["_type"] == "rectangular array"))
                                p.extra_tags.push_back("r:array-parent_cells");
                            if (!u.contains("bbox") && u.value("_type", "") != "rectarray")
                                p.extra_tags.push_back("r:unit-bbox-absent(infinite)");
                            for (char const* key : {"volumes", "cells"})
                                if (u.contains(key))
                                    for (auto const& v : u[key])
                                        if (v.contains("zorder") && v["zorder"].is_number())
                                            p.extra_tags.push_back("r:legacy-zorder-int");
                        }
                }
            }
            p.make = [path] {
                std::ifstream f(path);
                nlohmann::json j = nlohmann::json::parse(f);
                bool has_inv = false;
                for (auto const& u : j.at("universes"))
                    if (u.contains("surfaces") && u["surfaces"].contains("types"))
                        for (auto const& t : u["surfaces"]["types"])
                            has_inv = has_inv || t == "inv";
                if (has_inv && involute_reader_status() != 0)
                    throw UnreadableInvolute(path);
                OrangeInput in;
                j.get_to(in);
                return in;
            };
            out.push_back(std::move(p));
        }
    }
    if (found == 0)
        R.harness_error("no bundled .org.json found under " + repo);
}

//---------------------------------------------------------------------------//
// FAMILY ib: construction API
//---------------------------------------------------------------------------//
namespace ib
{
using namespace celeritas::orangeinp;
// orangeinp region names shadow the surface classes of the same name
using celeritas::orangeinp::Box;
using celeritas::orangeinp::Cone;
using celeritas::orangeinp::Cylinder;
using celeritas::orangeinp::Ellipsoid;
using celeritas::orangeinp::GenPrism;
using celeritas::orangeinp::Involute;
using celeritas::orangeinp::Parallelepiped;
using celeritas::orangeinp::Prism;
using celeritas::orangeinp::Sphere;
using SPConstObject = std::shared_ptr<ObjectInterface const>;
using SPConstProto = std::shared_ptr<ProtoInterface const>;

template<class CR, class... Args>
SPConstObject make_shape(std::string label, Args&&... args)
{
    return std::make_shared<Shape<CR>>(std::move(label), CR{std::forward<Args>(args)...});
}

struct Leaf
{
    char const* name;
    std::function<SPConstObject()> make;
    bool rotatable;  // the construction API documents involutes as z-aligned only
};

inline std::vector<Leaf> leaves()
{
    using VR2 = GenPrism::VecReal2;
    return {
        {"box", [] { return make_shape<Box>("box", Real3{1.0, 1.5, 2.0}); }, true},
        {"sphere", [] { return make_shape<Sphere>("sph", 1.25); }, true},
        {"cyl", [] { return make_shape<Cylinder>("cyl", 0.75, 1.5); }, true},
        {"cone", [] { return make_shape<Cone>("cone", Array<real_type, 2>{0.5, 1.0}, 1.25); }, true},
        {"ellipsoid", [] { return make_shape<Ellipsoid>("ell", Real3{1.0, 1.5, 0.75}); }, true},
        {"hexprism", [] { return make_shape<Prism>("hex", 6, 1.0, 1.2, 0.0); }, true},
        {"trd",
         [] {
             return make_shape<GenPrism>("trd", 1.5, VR2{{-1, -1}, {1, -1}, {1, 1}, {-1, 1}},
                                         VR2{{-2, -2}, {2, -2}, {2, 2}, {-2, 2}});
         },
         true},
        {"twisted",
         [] {
             return make_shape<GenPrism>("twist", 1.0,
                                         VR2{{-1, -1}, {1, -1}, {1, 1}, {-1, 1}},
                                         VR2{{-0.5, -1.2}, {1.2, -0.5}, {0.5, 1.2}, {-1.2, 0.5}});
         },
         true},
        {"ppiped",
         [] {
             return make_shape<Parallelepiped>("ppiped", Real3{1.0, 1.2, 1.4}, Turn{0.05},
                                               Turn{0.04}, Turn{0.03});
         },
         true},
        {"hollowsph",
         [] {
             return std::make_shared<SphereSolid>(
                 "hsph", Sphere{1.5}, Sphere{0.75}, SolidEnclosedAngle{});
         },
         true},
        {"boxminuscyl",
         [] {
             return make_subtraction("bmc", make_shape<Box>("bmc.box", Real3{1.2, 1.2, 1.2}),
                                     make_shape<Cylinder>("bmc.cyl", 0.6, 2.0));
         },
         true},
        {"union",
         [] {
             return std::make_shared<AnyObjects>(
                 "uni",
                 AnyObjects::VecObject{
                     make_shape<Sphere>("uni.sph", 1.0),
                     std::make_shared<Transformed>(make_shape<Box>("uni.box", Real3{0.5, 0.5, 0.5}),
                                                   Translation{{0.9, 0.2, 0.1}})});
         },
         true},
        {"involute",
         [] {
             return make_shape<Involute>("invo", Real3{1.0, 2.0, 3.0},
                                         Array<real_type, 2>{0, 0.15667 * constants::pi},
                                         Chirality::left, 1.0);
         },
         false},
    };
}

struct Xf
{
    char const* name;
    VariantTransform t;
};
inline std::vector<Xf> transforms(bool thorough = true)
{
    SquareMatrixReal3 const refl{Real3{1, 0, 0}, Real3{0, 1, 0}, Real3{0, 0, -1}};
    SquareMatrixReal3 const rotrefl = [&] {
        auto r = make_rotation(make_unit_vector(Real3{2, -1, 1}), Turn{0.3183098861837907});
        for (int i = 0; i < 3; ++i)
            r[i][0] = -r[i][0];  // reflect x, then rotate: det = -1
        return r;
    }();
    std::vector<Xf> result = {
        {"none", NoTransformation{}},
        {"trans", Translation{{0.3, -0.2, 0.1}}},
        {"rotx", Transformation{make_rotation(Axis::x, Turn{0.25}), {0, 0, 0}}},
        {"roty", Transformation{make_rotation(Axis::y, Turn{0.25}), {0.1, 0, 0}}},
        {"rotz", Transformation{make_rotation(Axis::z, Turn{0.25}), {0, 0.1, 0}}},
        {"refl", Transformation{refl, {0, 0, 0.2}}},
        {"generic",
         Transformation{make_rotation(make_unit_vector(Real3{1, 2, 3}), Turn{0.137}),
                        {0.3, -0.2, 0.1}}},
    };
    if (thorough)
    {
        result.push_back({"trans2", Translation{{-1.0 / 3, 2.0 / 7, 1e-3}}});
        result.push_back(
            {"generic2",
             Transformation{make_rotation(make_unit_vector(Real3{-3, 1, 0.5}), Turn{0.4142135623730951}),
                            {-0.25, 0.125, 0.0625}}});
        result.push_back({"rotrefl", Transformation{rotrefl, {0.1, 0.2, -0.3}}});
    }
    return result;
}

inline SPConstObject place(SPConstObject obj, VariantTransform const& t)
{
    if (std::holds_alternative<NoTransformation>(t))
        return obj;
    return std::make_shared<Transformed>(std::move(obj), t);
}

inline UnitProto::MaterialInput
material(SPConstObject obj, unsigned m, bool ext_labels, char const* name)
{
    UnitProto::MaterialInput r;
    r.interior = std::move(obj);
    r.fill = GeoMaterialId{m};
    if (ext_labels)
        r.label = Label{name, "ext"};
    return r;
}

// placement 0: global, explicit exterior, leaf + rest
// placement 1: global, leaf + background
// placement 2: global with ZOrder::exterior boundary, leaf + background
// placement 3 + 4*(depth-1) + k: leaf inside a chain of `depth` daughter units each placed
//             with daughter transform k in {none, trans, generic rotation, reflection}
constexpr int num_placements = 3 + 4 * 3;

inline OrangeInput
build(int leaf_i, int xf_i, int placement, int tol_i, bool ext_labels, bool thorough)
{
    auto const L = leaves();
    auto const X = transforms(thorough);
    SPConstObject leaf = place(L[leaf_i].make(), X[xf_i].t);

    std::shared_ptr<UnitProto> global;
    if (placement <= 2)
    {
        UnitProto::Input inp;
        inp.label = "global";
        if (placement == 0)
        {
            inp.boundary.interior = make_shape<Sphere>("bound", 10.0);
            inp.boundary.zorder = ZOrder::media;
            inp.materials.push_back(material(leaf, 1, ext_labels, "leafvol"));
            inp.materials.push_back(material(
                make_rdv("rest", {{Sense::inside, inp.boundary.interior}, {Sense::outside, leaf}}),
                2, ext_labels, "restvol"));
        }
        else
        {
            inp.boundary.interior = make_shape<Box>("bound", Real3{8.0, 9.0, 10.0});
            inp.boundary.zorder = placement == 1 ? ZOrder::media : ZOrder::exterior;
            inp.materials.push_back(material(leaf, 1, ext_labels, "leafvol"));
            inp.background.fill = GeoMaterialId{0};
            if (ext_labels)
                inp.background.label = Label{"bgvol", "ext"};
        }
        global = std::make_shared<UnitProto>(std::move(inp));
    }
    else
    {
        int const depth = 1 + (placement - 3) / 4;
        int const k = (placement - 3) % 4;
        SquareMatrixReal3 const refl{Real3{1, 0, 0}, Real3{0, -1, 0}, Real3{0, 0, 1}};
        VariantTransform const dts[] = {
            NoTransformation{},
            Translation{{0.5, -0.25, 0.125}},
            Transformation{make_rotation(make_unit_vector(Real3{-1, 1, 2}), Turn{0.2113}),
                           {0.25, 0.5, -0.375}},
            Transformation{refl, {-0.3, 0.2, 0.4}},
        };
        VariantTransform const& dt = dts[k];

        // innermost unit
        std::shared_ptr<UnitProto> unit = [&] {
            UnitProto::Input inp;
            inp.label = "inner";
            inp.boundary.interior = make_shape<Sphere>("inner.bound", 4.5);
            inp.materials.push_back(material(leaf, 1, ext_labels, "leafvol"));
            inp.background.fill = GeoMaterialId{2};
            if (ext_labels)
                inp.background.label = Label{"innerbg", "ext"};
            return std::make_shared<UnitProto>(std::move(inp));
        }();
        for (int lev = 1; lev < depth; ++lev)
        {
            UnitProto::Input inp;
            inp.label = fmt("mid%d", lev);
            inp.boundary.interior
                = make_shape<Sphere>(fmt("mid%d.bound", lev), 4.5 + 2.0 * lev);
            UnitProto::DaughterInput d;
            d.fill = unit;
            d.transform = dt;
            // (ZOrder::hole daughters: 'volume masking using different z orders' is not
            // implemented by UnitProto in this revision)
            inp.daughters.push_back(d);
            inp.background.fill = GeoMaterialId{3};
            unit = std::make_shared<UnitProto>(std::move(inp));
        }
        UnitProto::Input inp;
        inp.label = "global";
        inp.boundary.interior = make_shape<Sphere>("bound", 12.0);
        inp.boundary.zorder = ZOrder::media;
        UnitProto::DaughterInput d;
        d.fill = unit;
        d.transform = dt;
        inp.daughters.push_back(d);
        inp.materials.push_back(
            material(make_rdv("shell",
                              {{Sense::inside, inp.boundary.interior},
                               {Sense::outside, inp.daughters.front().make_interior()}}),
                     4, ext_labels, "shellvol"));
        global = std::make_shared<UnitProto>(std::move(inp));
    }

    InputBuilder::Options opts;
    switch (tol_i)
    {
        case 0: opts.tol = Tolerance<>::from_default(); break;
        case 1: opts.tol = Tolerance<>::from_relative(1e-5); break;
        default: opts.tol = Tolerance<>::from_relative(3e-7, 10.0); break;
    }
    InputBuilder build_input(std::move(opts));
    return build_input(*global);
}
}  // namespace ib

namespace ib
{
// Boolean combination of two leaves as one material of an explicit global unit
inline OrangeInput build_pair(int l1, int l2, int op, int tol_i)
{
    auto const L = leaves();
    SPConstObject a = L[l1].make();
    SPConstObject b = place(L[l2].make(), Translation{{0.6, 0.4, -0.3}});
    SPConstObject combo;
    switch (op)
    {
        case 0: combo = std::make_shared<AnyObjects>("any", AnyObjects::VecObject{a, b}); break;
        case 1: combo = std::make_shared<AllObjects>("all", AllObjects::VecObject{a, b}); break;
        default: combo = make_subtraction("sub", a, b); break;
    }
    UnitProto::Input inp;
    inp.label = "global";
    inp.boundary.interior = make_shape<Sphere>("bound", 10.0);
    inp.boundary.zorder = ZOrder::media;
    inp.materials.push_back(material(combo, 1, op == 1, "combo"));
    inp.materials.push_back(material(
        make_rdv("rest", {{Sense::inside, inp.boundary.interior}, {Sense::outside, combo}}), 2,
        op == 1, "restvol"));
    UnitProto global{std::move(inp)};
    InputBuilder::Options opts;
    opts.tol = tol_i == 0 ? Tolerance<>::from_default() : Tolerance<>::from_relative(1e-5);
    return InputBuilder(std::move(opts))(global);
}
}  // namespace ib

inline void add_builder_programs(std::vector<Program>& out, bool thorough)
{
    auto const L = ib::leaves();
    auto const X = ib::transforms(thorough);
    for (int l1 = 0; l1 < int(L.size()); ++l1)
        for (int l2 = 0; l2 < int(L.size()); ++l2)
            for (int op = 0; op < 3; ++op)
            {
                if (!L[l1].rotatable || !L[l2].rotatable)
                    continue;  // involute leaves are covered by the single-leaf programs
                int const t = (l1 + l2 + op) % 2;
                Program prog;
                prog.id = fmt("ib:pair=%s,%s,op=%d,tol=%d", L[l1].name, L[l2].name, op, t);
                prog.extra_tags = {fmt("ib:pair-op=%d", op)};
                prog.make = [=] { return ib::build_pair(l1, l2, op, t); };
                out.push_back(std::move(prog));
            }
    for (int l = 0; l < int(L.size()); ++l)
        for (int x = 0; x < int(X.size()); ++x)
        {
            if (!L[l].rotatable && x >= 2)
                continue;  // Involute: documented as z-aligned, translation only
            for (int p = 0; p < ib::num_placements; ++p)
                for (int t = 0; t < 3; ++t)
                    for (int e = 0; e < 2; ++e)
                    {
                        Program prog;
                        prog.id = fmt("ib:leaf=%s,xf=%s,place=%d,tol=%d,ext=%d", L[l].name,
                                      X[x].name, p, t, e);
                        prog.extra_tags = {fmt("ib:leaf=%s", L[l].name),
                                           fmt("ib:objxf=%s", X[x].name),
                                           fmt("ib:placement=%d", p)};
                        prog.make = [=] { return ib::build(l, x, p, t, e != 0, thorough); };
                        out.push_back(std::move(prog));
                    }
        }
}

}  // namespace c19

#include "problems/c19_handwritten.hh"
#include "problems/c19_legacy.hh"
