#!/bin/bash
# Confirm a seeded change in the scratch worktree its author left behind (patch applied, _b built)
# and run the checks against it; the worktree and its build output are removed afterwards.
#   ./seed_confirm_wt.sh <seed-id> <worktree> <Cxx> [<Cyy>...]
# needs seeded/<seed-id>/{patch.diff,demo.sh}; appends to seeded/<seed-id>/confirm.log
ID=$1; WT=$2; shift 2
SEED=/verif/seeded/$ID; LOG=$SEED/confirm.log
echo "==== $(date -u) confirm $ID in $WT at /repo $(git -C /repo rev-parse --short HEAD) verif $(git -C /verif rev-parse --short HEAD)" | tee -a $LOG
[ "$(git -C $WT rev-parse HEAD)" = "$(git -C /repo rev-parse HEAD)" ] || { echo "worktree is not at /repo HEAD" | tee -a $LOG; exit 2; }
# the worktree must contain exactly the recorded patch
git -C $WT diff > /tmp/cfwt_$ID.diff
if ! diff -q <(grep -E '^[+-]' /tmp/cfwt_$ID.diff | grep -vE '^(\+\+\+|---)') <(grep -E '^[+-]' $SEED/patch.diff | grep -vE '^(\+\+\+|---)') >/dev/null; then
  echo "worktree diff differs from patch.diff: resetting and applying patch.diff" | tee -a $LOG
  git -C $WT checkout -- . && git -C $WT apply $SEED/patch.diff || { echo "patch does not apply" | tee -a $LOG; exit 2; }
fi
rm -f /tmp/cfwt_$ID.diff
if [ ! -f $WT/_b/build.ninja ]; then
  ( cd $WT && cmake -G Ninja -S . -B _b -DCELERITAS_BUILD_TESTS=ON -DCELERITAS_USE_MPI=OFF -DCELERITAS_USE_OpenMP=OFF \
    -DCELERITAS_USE_Python=OFF -DCELERITAS_BUILD_DOCS=OFF -DCELERITAS_USE_PNG=OFF -DCMAKE_CXX_FLAGS="-Wno-error -w" \
    -DCMAKE_BUILD_TYPE=RelWithDebInfo -Dnlohmann_json_DIR=/root/miniconda/share/cmake/nlohmann_json \
    -DGTest_DIR=/root/miniconda/lib/cmake/GTest > _cfg.log 2>&1 )
fi
ninja -C $WT/_b -j ${SEED_JOBS:-12} > $WT/_build.log 2>&1 || { echo "BUILD FAILED" | tee -a $LOG; tail -5 $WT/_build.log | tee -a $LOG; }
ctest --test-dir $WT/_b -j8 --timeout 900 2>&1 | grep -E "tests passed|\(Failed\)" | head -5 | tee -a $LOG
WT=$WT B=$WT/_b bash $SEED/demo.sh > $SEED/demo.patched.out 2>&1; echo "demo with patch: exit $?" | tee -a $LOG
WT=/repo B=/repo/_build bash $SEED/demo.sh > $SEED/demo.clean.out 2>&1; echo "demo without patch: exit $?" | tee -a $LOG
# checks: the brief's flow - apply to /repo, run, undo (serialised; incremental rebuild of /verif/build)
(
  flock 9
  [ -z "$(git -C /repo status --porcelain --untracked-files=no)" ] || { echo "/repo not clean; refusing" | tee -a $LOG; exit 2; }
  git -C /repo apply $SEED/patch.diff || { echo "patch does not apply to /repo" | tee -a $LOG; exit 2; }
  trap 'git -C /repo checkout -- .' EXIT
  for c in "$@"; do
    out=$(cd /verif && VERIF_OUTDIR=$SEED/run ./check $c quick 2>&1); rc=$?
    echo "check $c quick on patched tree: exit $rc" | tee -a $LOG
    echo "$out" | grep -E "^\[check\] [a-z].*:|VIOLATION" | cut -c1-400 | head -6 | tee -a $LOG
  done
) 9>/verif/build/.repo_apply.lock
git -C /repo worktree remove --force $WT; rm -rf $WT
echo "==== done $ID" | tee -a $LOG
