#!/bin/bash
# Confirm a seeded change and run the checks against it, the way the brief prescribes:
#   apply the patch to /repo, rebuild /repo/_build (incremental), run the repository's own tests,
#   run the demonstration, run the named checks, undo the patch straight afterwards, rebuild and
#   run the demonstration on the clean tree.
#
#   ./seed_verify.sh <seed-id> <Cxx> [<Cyy> ...]        (SKIP_TESTS=1: no ctest; TIER=thorough)
#
# needs seeded/<seed-id>/{patch.diff,demo.sh}; demo.sh is run with WT=/repo B=/repo/_build and
# must exit non-zero with the patch and 0 without.  Log: seeded/<seed-id>/confirm.log.
# Serialised through a lock: nothing else may use /repo while a patch is applied.
set -u
ID=$1; shift
SEED=/verif/seeded/$ID; LOG=$SEED/confirm.log
cd /verif
exec 9>/verif/build/.repo_apply.lock
flock 9
if [ -n "$(git -C /repo status --porcelain --untracked-files=no)" ]; then
  echo "/repo has uncommitted changes; refusing" ; exit 2
fi
build() {
  ( cmake --build /repo/_build -j${SEED_JOBS:-16} -- -k 0 2>&1 | grep -E "^FAILED|error:" | grep -v GeantVolumeMapper | head -5 ) | tee -a $LOG
}
demo() {  # $1 = label
  WT=/repo B=/repo/_build CELER_DISABLE_PARALLEL=1 CELER_LOG=error bash $SEED/demo.sh > $SEED/demo.$1.out 2>&1
  echo "demo ($1 tree): exit $?" | tee -a $LOG
}
echo "==== $(date -u) verify $ID at /repo $(git -C /repo rev-parse --short HEAD) verif $(git -C /verif rev-parse --short HEAD)" | tee -a $LOG
git -C /repo apply $SEED/patch.diff || { echo "patch does not apply" | tee -a $LOG; exit 2; }
trap 'git -C /repo checkout -- . ; echo "[undone]"' EXIT
build
if [ -z "${SKIP_TESTS:-}" ]; then
  ( ctest --test-dir /repo/_build -j8 --timeout 900 2>&1 | grep -E "tests passed|\(Failed\)|\(Timeout\)" | head -8 ) | tee -a $LOG
  # a timeout on the loaded machine: run those tests again on their own
  if grep -q "(Timeout)" $LOG; then
    ( ctest --test-dir /repo/_build --rerun-failed -j2 --timeout 3000 2>&1 | grep -E "tests passed|\(Failed\)|\(Timeout\)" | sed 's/^/rerun-failed: /' | head -8 ) | tee -a $LOG
  fi
fi
demo patched
for c in "$@"; do
  mkdir -p $SEED/run
  out=$(VERIF_OUTDIR=$SEED/run ./check $c ${TIER:-quick} 2>&1); rc=$?
  echo "$out" | grep -v "^KNOWN-FINDING" | tail -60 | cut -c1-600 > $SEED/run/check_$c.out
  echo "check $c ${TIER:-quick} on patched tree: exit $rc" | tee -a $LOG
  echo "$out" | grep -E "^\[check\] [a-z].*:|VIOLATION" | cut -c1-400 | head -6 | tee -a $LOG
done
git -C /repo checkout -- .
trap - EXIT
build
demo clean
echo "==== done $ID" | tee -a $LOG
