#!/bin/bash
# Confirm a seeded change and run the checks against it, the way the brief prescribes:
#   apply the patch to /repo, rebuild, run the repository's own tests, run the demonstration,
#   run the named checks, and undo the patch straight afterwards.
#
#   ./seed_verify.sh <seed-dir> <demo-cmd-file|-> <Cxx> [<Cyy> ...]
#
# <seed-dir>/patch.diff is applied with `git -C /repo apply`.  If <demo-cmd-file> is given it is a
# shell script run twice (with the patch: must fail; without: must pass) with REPO_BUILD=/repo/_build.
# Results are appended to <seed-dir>/verify.log.
set -u
SEED=$1; DEMO=$2; shift 2
LOG=$SEED/verify.log
cd /verif
if [ -n "$(git -C /repo status --porcelain --untracked-files=no)" ]; then
  echo "/repo has uncommitted changes; refusing" ; exit 2
fi
run_demo() {  # $1 = label
  if [ "$DEMO" != "-" ]; then
    REPO_BUILD=/repo/_build CELER_DISABLE_PARALLEL=1 CELER_LOG=error bash "$DEMO" > $SEED/demo.$1.out 2>&1
    echo "demo($1) exit=$?" | tee -a $LOG
  fi
}
echo "==== $(date) verify $SEED" | tee -a $LOG
git -C /repo apply $SEED/patch.diff || { echo "patch does not apply" | tee -a $LOG; exit 2; }
trap 'git -C /repo checkout -- . ; echo "[undone]"' EXIT
( cmake --build /repo/_build -j16 -- -k 0 2>&1 | grep -E "^FAILED|error:" | grep -v GeantVolumeMapper | head -5 ) | tee -a $LOG
( ctest --test-dir /repo/_build -j8 --timeout 900 2>&1 | grep -E "tests passed|Failed|FAILED" | head -8 ) | tee -a $LOG
run_demo patched
for c in "$@"; do
  out=$(VERIF_OUTDIR=$SEED/run ./check $c quick 2>&1); rc=$?
  echo "check $c quick (patched) rc=$rc" | tee -a $LOG
  echo "$out" | grep -E "^\[check\] [a-z].*:|VIOLATION|KNOWN" | cut -c1-300 | head -8 | tee -a $LOG
done
git -C /repo checkout -- .
trap - EXIT
( cmake --build /repo/_build -j16 -- -k 0 2>&1 | grep -E "^FAILED|error:" | grep -v GeantVolumeMapper | head -5 ) | tee -a $LOG
run_demo clean
echo "==== done" | tee -a $LOG
